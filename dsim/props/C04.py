import copy

import numpy as np

from .base import Prop
from ..world import World
from ..runner import absorb
from ..refmodels import eps_of
from .. import oracles, gen


class C04(Prop):
    pid = "C04"
    level = "exploration"
    quick = {"seeds": 2500, "wall_cap": 90, "chunk": 16}
    thorough = {"seeds": 50000, "wall_cap": 1500, "chunk": 32}
    rule = ("one case = one seeded scenario: 60% a non-adaptive method (explicit RK, splitting, implicit without estimator) with dt <= span on a span of "
            "any sign/direction and 1-3 integrate(t) calls, implicit ones with forced solver non-convergence / LinAlgError (fault injection) so that the "
            "'may only shorten after a failed solve' clause is exercised; 40% adaptive methods.  Observable: the exact h handed to every step attempt "
            "(seam on the integrator's step) and the recorded grid.  Twin worlds for the relational clause on autonomous problems: the same run with the "
            "span shifted by +-2^k, and the time-reflected problem integrated backward.  Non-trivial = at least one recorded step")
    assumptions = ["shift / reflection: fixed-step methods agree to 256*n*eps*max|y|*amplification, adaptive ones to 2*(atol+rtol*|y|)*n*amplification plus the time resolution of the shifted axis (calibrated: largest ratio seen 0.04)",
                   "runs in which a callback assigns dt are excluded (user intervention)", "Richardson wrappers are adaptive: only the relational clause applies"]

    def monitors(self, scn):
        return [oracles.FixedStep("C04")]

    def run(self, scn, res):
        w = super().run(scn, res)
        twin = scn.get("twin", "none")
        if twin == "none" or scn.get("faults") or not w.problem.autonomous:
            return w
        if any(s["exc"] is not None for s in w.snaps):
            return w
        c = copy.deepcopy(scn)
        c.pop("expect", None)
        s = c["system"]
        if twin == "shift":
            sh = scn["shift"]
            s["t0"] = s["t0"] + sh
            s["tf"] = s["tf"] + sh
            for op in c["ops"]:
                if op.get("t") is not None:
                    op["t"] = op["t"] + sh
        else:
            s["t0"], s["tf"] = -s["t0"], -s["tf"]
            s["constants"] = dict(s["constants"], k=-s["constants"].get("k", 1.0))
            for op in c["ops"]:
                if op.get("t") is not None:
                    op["t"] = -op["t"]
        g = World(c, monitors=[])
        g.run()
        absorb(res, g)
        a, b = w.snaps[-1], g.snaps[-1]
        if b["exc"] is not None:
            res["violations"].append({"property": "C04", "oracle": "C04.twin_completes", "op": len(scn["ops"]) - 1,
                                      "detail": "the %s twin failed (%s) while the original completed" % (twin, b["exc_type"])})
            return w
        fam = gen.method_family(scn["system"]["method"])
        eps = eps_of(a["y"].dtype)
        k = w.system.constants.get("k", 1.0)
        amp = w.problem.amplification(float(a["t"][0]), float(a["t"][-1]), k)
        ymax = float(np.max(np.abs(a["y"])))
        n = max(a["n"], b["n"])
        err = float(np.max(np.abs(np.asarray(a["y"][-1] - b["y"][-1], dtype=np.float64))))
        if fam in ("explicit_fixed", "splitting", "implicit_fixed"):
            integ = w.system.integrator
            extra = 0.0
            if fam == "implicit_fixed":
                extra = 20 * n * amp * (float(integ.atol) + float(integ.rtol) * ymax)      # stage equations solved to tolerance only
            bound = 256 * n * eps * max(ymax, 1e-300) * amp + extra
            # a shifted time axis changes the floating-point value of the final (clamped) step by rounding: allow h-rounding * |f|
            L = w.problem.lipschitz(k)
            bound += 64 * eps * max(abs(float(b["t"][-1])), abs(float(a["t"][-1])), 1.0) * L * max(ymax, 1e-300) * amp * n
            # the scenario's span end points are float64 numbers: the shifted span t0+c, tf+c is only a shift up to float64 rounding
            bound += 8 * 2.3e-16 * max(abs(float(b["t"][-1])), abs(float(b["t"][0])), 1.0) * L * max(ymax, 1e-300) * amp
            name = "C04.%s_rounding_level" % twin
            res["ratios"][name] = max(res["ratios"].get(name, 0), err / bound)
            if err > bound:
                res["violations"].append({"property": "C04", "oracle": name, "op": len(scn["ops"]) - 1,
                                          "detail": "%s twin differs by %.3e (> %.3e) for fixed-step %s (%d vs %d rows)" % (twin, err, bound, scn["system"]["method"], a["n"], b["n"])})
        else:
            integ = w.system.integrator
            # calibrated: shifted / reflected adaptive runs take the same step sequence up to rounding (largest ratio seen on the unchanged
            # tree 0.04 of this bound over 20000 cases); the rounding of t + c_i h on the shifted axis enters through the time resolution
            tres = eps * max(abs(float(b["t"][-1])), abs(float(b["t"][0])), 1.0)
            bound = 2 * ((float(integ.atol) + float(integ.rtol) * ymax) * n * amp + 64 * eps * ymax * n) + 64 * tres * w.problem.lipschitz(k) * max(ymax, 1e-300) * amp * n
            bound += 8 * 2.3e-16 * max(abs(float(b["t"][-1])), abs(float(b["t"][0])), 1.0) * w.problem.lipschitz(k) * max(ymax, 1e-300) * amp
            name = "C04.%s_tolerance_level" % twin
            res["ratios"][name] = max(res["ratios"].get(name, 0), err / bound)
            if err > bound:
                res["violations"].append({"property": "C04", "oracle": name, "op": len(scn["ops"]) - 1,
                                          "detail": "%s twin differs by %.3e (> %.3e) for adaptive %s" % (twin, err, bound, scn["system"]["method"])})
        return w


PROP = C04()
