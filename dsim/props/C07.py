from .base import Prop
from .. import oracles, events_oracles


class C07(Prop):
    pid = "C07"
    quick = {"seeds": 4000, "wall_cap": 90, "chunk": 16}
    thorough = {"seeds": 80000, "wall_cap": 1500, "chunk": 32}
    level = "exploration"
    rule = ("one case = one seeded scenario on harmonic-oscillator problems (closed-form trajectory and roots) with 1-3 events (state / time / slope "
            "dependent, scales 1e-6..1e6, directions -1/0/+1), every method family, both directions, dense on/off; for fixed-step methods the step grid is "
            "scheduled through the callback seam so that boundaries fall exactly on, one ulp-ish before or after closed-form roots and several roots share "
            "a step; 45% of histories split the integration AT a root (integrate(root); integrate()).  Non-trivial = at least one event was reported")
    assumptions = ["closed-form roots exist for harmonic components and pure time events only; other problems get distance-based uniqueness only",
                   "residual '~0' is read as rounding level relative to the scale of g, or 16 eps in absolute terms",
                   "root-location bound 30*(E + O(h^4) interpolation error)/|slope| with E the run's own measured global error",
                   "crossing sense is read off the computed trajectory of the containing step, along the direction of integration (library/scipy convention)"]

    def monitors(self, scn):
        mons = [events_oracles.Events(props=("C07",))]
        if "C07" == "C09":
            mons += [oracles.Structure("C09"), oracles.Dense("C09", accuracy=False)]
        return mons

    def facts(self, scn, viol):
        f = super().facts(scn, viol)
        f["max_scale"] = max([abs(e.get("scale", 1.0)) for e in scn.get("events", [])] or [1.0])
        f["min_scale"] = min([abs(e.get("scale", 1.0)) for e in scn.get("events", [])] or [1.0])
        f["n_integrate_ops"] = len([o for o in scn["ops"] if o["op"] == "integrate"])
        f["has_terminal"] = any(e.get("terminal") for e in scn.get("events", []))
        return f


PROP = C07()
