"""Self-tests of the simulator: determinism, sensitivity (mutants), quietness.

  ./selftest determinism [--seeds N]      same scenario twice in-process, in a fresh interpreter under another PYTHONHASHSEED
  ./selftest mutants [name ...]          apply each mutant to a scratch copy of /repo, expect the property's check to exit 1
  ./selftest seeded [id ...]             same for the sub-agent changes kept under /verif/seeded/<id>/patch.diff
"""
import argparse
import json
import os
import shutil
import subprocess
import sys
import tempfile
import time

HERE = os.path.dirname(os.path.abspath(__file__))
sys.path.insert(0, HERE)


def scratch_copy(repo="/repo"):
    d = tempfile.mkdtemp(prefix="dsim_mut_", dir=os.environ.get("DSIM_SCRATCH", "/tmp"))
    shutil.copytree(os.path.join(repo, "desolver"), os.path.join(d, "desolver"), ignore=shutil.ignore_patterns("__pycache__", "tests"))
    return d


def run_check(pid, repo, seeds=None, tier="quick", timeout=1500, extra_env=None):
    env = dict(os.environ)
    env["DSIM_REPO"] = repo
    env.pop("DSIM_REEXEC", None)
    if extra_env:
        env.update(extra_env)
    cmd = [os.path.join(HERE, "check"), pid, "--tier", tier]
    if seeds:
        cmd += ["--seeds", str(seeds)]
    t0 = time.time()
    p = subprocess.run(cmd, env=env, capture_output=True, text=True, timeout=timeout, cwd=HERE)
    return p.returncode, p.stdout, p.stderr, time.time() - t0


def cmd_mutants(names, seeds=None, keep_replays=False):
    specs = json.load(open(os.path.join(HERE, "mutants", "mutants.json")))
    if names:
        specs = [s for s in specs if s["name"] in names]
    results = []
    ev_backup = tempfile.mkdtemp(prefix="dsim_ev_")
    for s in specs:
        d = scratch_copy()
        try:
            for ed in s["edits"]:
                p = os.path.join(d, ed["file"])
                src = open(p).read()
                if src.count(ed["old"]) != 1 and not (ed.get("all") and src.count(ed["old"]) >= 1):
                    raise SystemExit("mutant %s: pattern occurs %d times in %s" % (s["name"], src.count(ed["old"]), ed["file"]))
                open(p, "w").write(src.replace(ed["old"], ed["new"]))
            row = {"name": s["name"], "checks": {}}
            for pid in s["properties"]:
                evp = os.path.join(HERE, "evidence", "%s.json" % pid)
                if os.path.exists(evp):
                    shutil.copy(evp, os.path.join(ev_backup, "%s.json" % pid))
                rdir = os.path.join(HERE, "replays", pid)
                before = set(os.listdir(rdir)) if os.path.isdir(rdir) else set()
                rc, out, err, wall = run_check(pid, d, seeds=seeds)
                lines = [l for l in out.splitlines() if l.startswith("VIOLATION") or l.startswith("  oracle=")]
                row["checks"][pid] = {"rc": rc, "wall": round(wall, 1), "lines": lines[:4]}
                if os.path.exists(os.path.join(ev_backup, "%s.json" % pid)):
                    shutil.copy(os.path.join(ev_backup, "%s.json" % pid), evp)
                if not keep_replays and os.path.isdir(rdir):
                    for fn in set(os.listdir(rdir)) - before:
                        os.remove(os.path.join(rdir, fn))
                if rc not in (0, 1):
                    row["checks"][pid]["stderr"] = err[-600:]
            row["caught"] = any(c["rc"] == 1 for c in row["checks"].values())
            results.append(row)
            print("%-44s %s  %s" % (s["name"], "CAUGHT" if row["caught"] else "MISSED", {k: (v["rc"], v["wall"]) for k, v in row["checks"].items()}), flush=True)
            for pid, c in row["checks"].items():
                for l in c["lines"][:2]:
                    print("      " + l[:230])
                if "stderr" in c:
                    print("      STDERR " + c["stderr"][-400:])
        finally:
            shutil.rmtree(d, ignore_errors=True)
    shutil.rmtree(ev_backup, ignore_errors=True)
    json.dump(results, open(os.path.join(HERE, "mutants", "last_results.json"), "w"), indent=1)
    return 0 if all(r["caught"] for r in results) else 1


def cmd_seeded(ids, seeds=None):
    base = os.path.join(HERE, "seeded")
    ids = ids or sorted(os.listdir(base))
    ok = True
    ev_backup = tempfile.mkdtemp(prefix="dsim_ev_")
    for sid in ids:
        meta = json.load(open(os.path.join(base, sid, "meta.json")))
        d = tempfile.mkdtemp(prefix="dsim_seed_", dir=os.environ.get("DSIM_SCRATCH", "/tmp"))
        try:
            subprocess.run(["git", "-C", "/repo", "archive", "HEAD", "desolver"], stdout=open(os.path.join(d, "a.tar"), "wb"), check=True)
            subprocess.run(["tar", "-xf", os.path.join(d, "a.tar"), "-C", d], check=True)
            os.remove(os.path.join(d, "a.tar"))
            p = subprocess.run(["patch", "-p1", "-d", d, "-i", os.path.join(base, sid, "patch.diff")], capture_output=True, text=True)
            if p.returncode != 0:
                print("%-40s PATCH-FAILED %s" % (sid, p.stdout[-300:]))
                ok = False
                continue
            if meta.get("neutralised_by"):
                # a later fix: commit made the library robust to this change: it is only kept while its own demonstration
                # (which fails whenever the property is broken) passes with the change applied to the current HEAD
                q = subprocess.run(["timeout", "900", sys.executable, os.path.join(base, sid, "demo.py")], capture_output=True, text=True,
                                   env=dict(os.environ, PYTHONPATH=d), cwd=d)
                if q.returncode == 0:
                    print("%-40s NEUTRALISED (demo passes with the change applied: %s)" % (sid, meta["neutralised_by"]), flush=True)
                    continue
            row = {}
            for pid in meta.get("checks", [meta["property"]]):
                evp = os.path.join(HERE, "evidence", "%s.json" % pid)
                if os.path.exists(evp):
                    shutil.copy(evp, os.path.join(ev_backup, "%s.json" % pid))
                rdir = os.path.join(HERE, "replays", pid)
                before = set(os.listdir(rdir)) if os.path.isdir(rdir) else set()
                rc, out, err, wall = run_check(pid, d, seeds=seeds)
                row[pid] = (rc, round(wall, 1), [l for l in out.splitlines() if l.startswith("  oracle=")][:2])
                if os.path.exists(os.path.join(ev_backup, "%s.json" % pid)):
                    shutil.copy(os.path.join(ev_backup, "%s.json" % pid), evp)
                if os.path.isdir(rdir):
                    for fn in set(os.listdir(rdir)) - before:
                        os.remove(os.path.join(rdir, fn))
            caught = any(v[0] == 1 for v in row.values())
            ok = ok and caught
            print("%-40s %s %s" % (sid, "CAUGHT" if caught else "MISSED", {k: v[:2] for k, v in row.items()}), flush=True)
            for pid, v in row.items():
                for l in v[2]:
                    print("      " + l[:230])
        finally:
            shutil.rmtree(d, ignore_errors=True)
    shutil.rmtree(ev_backup, ignore_errors=True)
    return 0 if ok else 1


def cmd_determinism(nseeds, props_):
    """each scenario: twice in this process, once in a fresh interpreter with another PYTHONHASHSEED and pool size."""
    from dsim import boot
    boot.boot()
    from dsim import props, runner
    bad = 0
    total = 0
    for pid in props_:
        prop = props.get(pid)
        digs = {}
        for seed in range(nseeds):
            scns = prop.generate(seed, "quick")[:3]
            for j, scn in enumerate(scns):
                r1 = runner.run_scenario_safe(prop, scn)
                r2 = runner.run_scenario_safe(prop, scn)
                total += 1
                if r1["digest"] != r2["digest"] or r1["outcome"] != r2["outcome"]:
                    bad += 1
                    print("NONDETERMINISTIC in-process: %s seed %d case %d" % (pid, seed, j))
                digs["%d/%d" % (seed, j)] = (r1["digest"], r1["outcome"], len(r1["violations"]))
        # fresh interpreter, different hash seed
        code = ("import sys,json; sys.path.insert(0,%r)\n"
                "from dsim import boot; boot.boot()\n"
                "from dsim import props, runner\n"
                "prop=props.get(%r); out={}\n"
                "for seed in range(%d):\n"
                "    for j,scn in enumerate(prop.generate(seed,'quick')[:3]):\n"
                "        r=runner.run_scenario_safe(prop,scn); out['%%d/%%d'%%(seed,j)]=(r['digest'],r['outcome'],len(r['violations']))\n"
                "print('RESULT'+json.dumps(out))\n") % (HERE, pid, nseeds)
        for hs in ("1", "4242"):
            env = dict(os.environ)
            env.update({"PYTHONHASHSEED": hs, "OMP_NUM_THREADS": "1", "DSIM_REPO": boot.repo_path()})
            p = subprocess.run([sys.executable, "-c", code], env=env, capture_output=True, text=True, timeout=1800)
            line = [l for l in p.stdout.splitlines() if l.startswith("RESULT")]
            if not line:
                print("fresh interpreter failed for %s: %s" % (pid, p.stderr[-500:]))
                bad += 1
                continue
            other = json.loads(line[0][6:])
            for k, v in digs.items():
                if list(v) != list(other.get(k, [])):
                    bad += 1
                    print("NONDETERMINISTIC across interpreters (PYTHONHASHSEED=%s): %s %s %r vs %r" % (hs, pid, k, v, other.get(k)))
        print("%s: %d scenarios x (2 in-process + 2 fresh interpreters) compared" % (pid, len(digs)), flush=True)
    print("determinism: %d scenarios, %d mismatches" % (total, bad))
    return 0 if bad == 0 else 1


def main():
    ap = argparse.ArgumentParser()
    ap.add_argument("cmd", choices=["mutants", "determinism", "seeded"])
    ap.add_argument("names", nargs="*")
    ap.add_argument("--seeds", type=int)
    ap.add_argument("--props", default="")
    a = ap.parse_args()
    if a.cmd == "mutants":
        return cmd_mutants(a.names, seeds=a.seeds)
    if a.cmd == "seeded":
        return cmd_seeded(a.names, seeds=a.seeds)
    from dsim import props
    return cmd_determinism(a.seeds or 20, a.props.split(",") if a.props else props.IDS)


if __name__ == "__main__":
    from dsim import boot
    boot.ensure_env([os.path.abspath(__file__)] + sys.argv[1:])
    sys.exit(main())
