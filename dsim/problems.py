"""Mathematical right-hand-side programs used by the simulated peers.

Every problem is a pure function of its JSON description.  ``f`` is the *mathematical*
right-hand side (never counted, never faulted); peers wrap it.  All problems accept the
constant ``k`` (a global multiplier of the right-hand side, default 1) so that the
constants dictionary / solve_ivp ``args`` have an observable effect.
"""
import math
import numpy as np


def _dt(name):
    return np.dtype({"float32": np.float32, "float64": np.float64, "longdouble": np.longdouble}[name])


class Problem(object):
    autonomous = True
    has_exact = False
    separable = False
    linear = False

    def __init__(self, desc):
        self.desc = desc
        self.family = desc["family"]
        self.shape = tuple(desc["shape"])
        self.dtype = _dt(desc.get("dtype", "float64"))
        self.n = int(np.prod(self.shape)) if self.shape else 1
        self.params = desc.get("params", {})

    # -- helpers
    def arr(self, x):
        return np.asarray(x, dtype=np.float64).astype(self.dtype)

    def y0(self):
        return self.arr(self.desc["y0"]).reshape(self.shape)

    def f(self, t, y, k=1.0, **kw):
        raise NotImplementedError

    def jac(self, t, y, k=1.0, **kw):
        raise NotImplementedError

    def exact(self, t, t0, y0, k=1.0):
        return None

    def lipschitz(self, k=1.0):
        return 1.0

    def deriv4_scale(self, k=1.0):
        """bound of |d4y/dt4| / |y| along trajectories (for the O(h^4) interpolation bound)."""
        return self.lipschitz(k) ** 4

    def sensitivity(self, tj, tN, yj, k=1.0):
        """norm of d y(tN) / d y(tj) along the exact flow through (tj, yj): how a local error made at tj shows up at tN."""
        return math.exp(self.lipschitz(k) * abs(tN - tj))

    def amplification(self, t0, t1, k=1.0):
        """sup of the sensitivity of y(t1) to a perturbation introduced at any s between t0 and t1."""
        return math.exp(self.lipschitz(k) * abs(t1 - t0))


class Linear(Problem):
    """y' = k * A y  (y flattened), exact by expm."""
    has_exact = True
    linear = True

    def __init__(self, desc):
        super().__init__(desc)
        self.A64 = np.asarray(self.params["A"], dtype=np.float64).reshape(self.n, self.n)
        self.A = self.A64.astype(self.dtype)

    def f(self, t, y, k=1.0, **kw):
        y = np.asarray(y)
        A = self.A if y.dtype == self.dtype else self.A64.astype(y.dtype)
        return (k * (A @ y.reshape(-1))).reshape(y.shape)

    def jac(self, t, y, k=1.0, **kw):
        y = np.asarray(y)
        return (k * self.A.astype(y.dtype)).reshape(y.shape + y.shape)

    def exact(self, t, t0, y0, k=1.0):
        from scipy.linalg import expm
        tau = float(t) - float(t0)
        E = expm(np.float64(k) * self.A64 * tau)
        return (E @ np.asarray(y0, dtype=np.float64).reshape(-1)).reshape(np.shape(y0))

    def lipschitz(self, k=1.0):
        return abs(k) * float(np.linalg.norm(self.A64, 2))

    def amplification(self, t0, t1, k=1.0):
        from scipy.linalg import expm
        T = t1 - t0
        return max(float(np.linalg.norm(expm(k * self.A64 * (T * j / 16.0)), 2)) for j in range(17))

    def sensitivity(self, tj, tN, yj, k=1.0):
        from scipy.linalg import expm
        return float(np.linalg.norm(expm(k * self.A64 * (float(tN) - float(tj))), 2))


class Oscillators(Problem):
    """m uncoupled harmonic oscillators: q' = k w p, p' = -k w q;  y = (q_1..q_m, p_1..p_m).

    Separable Hamiltonian (drift = first half, kick = second half); exact solution and
    exact event roots are available in closed form.
    """
    has_exact = True
    separable = True
    linear = True

    def __init__(self, desc):
        super().__init__(desc)
        self.m = self.n // 2
        self.w64 = np.asarray(self.params["w"], dtype=np.float64)
        self.w = self.w64.astype(self.dtype)

    def f(self, t, y, k=1.0, **kw):
        y = np.asarray(y)
        w = self.w.astype(y.dtype)
        out = np.empty_like(y)
        m = self.m
        out[:m] = k * w * y[m:]
        out[m:] = -k * w * y[:m]
        return out

    def jac(self, t, y, k=1.0, **kw):
        y = np.asarray(y)
        m = self.m
        J = np.zeros((2 * m, 2 * m), dtype=y.dtype)
        w = self.w.astype(y.dtype)
        for i in range(m):
            J[i, m + i] = k * w[i]
            J[m + i, i] = -k * w[i]
        return J

    def exact(self, t, t0, y0, k=1.0):
        tau = float(t) - float(t0)
        y0 = np.asarray(y0, dtype=np.float64)
        m = self.m
        c = np.cos(k * self.w64 * tau)
        s = np.sin(k * self.w64 * tau)
        out = np.empty_like(y0)
        out[:m] = y0[:m] * c + y0[m:] * s
        out[m:] = -y0[:m] * s + y0[m:] * c
        return out

    def lipschitz(self, k=1.0):
        return abs(k) * float(np.max(np.abs(self.w64)))

    def amplification(self, t0, t1, k=1.0):
        return 1.0

    def sensitivity(self, tj, tN, yj, k=1.0):
        return 1.0


class Duffing(Problem):
    """q' = k p, p' = k(-a q - b q^3): separable, nonlinear, no closed form."""
    separable = True

    def __init__(self, desc):
        super().__init__(desc)
        self.m = self.n // 2
        self.a = self.arr(self.params["a"])
        self.b = self.arr(self.params["b"])

    def f(self, t, y, k=1.0, **kw):
        y = np.asarray(y)
        m = self.m
        a = self.a.astype(y.dtype)
        b = self.b.astype(y.dtype)
        out = np.empty_like(y)
        out[:m] = k * y[m:]
        out[m:] = k * (-a * y[:m] - b * y[:m] ** 3)
        return out

    def jac(self, t, y, k=1.0, **kw):
        y = np.asarray(y)
        m = self.m
        J = np.zeros((2 * m, 2 * m), dtype=y.dtype)
        a = self.a.astype(y.dtype)
        b = self.b.astype(y.dtype)
        for i in range(m):
            J[i, m + i] = k
            J[m + i, i] = k * (-a[i] - 3 * b[i] * y[i] ** 2)
        return J

    def lipschitz(self, k=1.0):
        return abs(k) * float(1.0 + np.max(np.abs(self.a)) + 3 * np.max(np.abs(self.b)) * 4.0)


class Logistic(Problem):
    """elementwise y' = k r y (1-y), y0 in (0,1); closed form."""
    has_exact = True

    def __init__(self, desc):
        super().__init__(desc)
        self.r64 = np.asarray(self.params["r"], dtype=np.float64).reshape(self.shape)
        self.r = self.r64.astype(self.dtype)

    def f(self, t, y, k=1.0, **kw):
        y = np.asarray(y)
        return k * self.r.astype(y.dtype) * y * (1 - y)

    def jac(self, t, y, k=1.0, **kw):
        y = np.asarray(y)
        d = (k * self.r.astype(y.dtype) * (1 - 2 * y)).reshape(-1)
        return np.diag(d).reshape(y.shape + y.shape)

    def exact(self, t, t0, y0, k=1.0):
        tau = float(t) - float(t0)
        y0 = np.asarray(y0, dtype=np.float64)
        return 1.0 / (1.0 + (1.0 / y0 - 1.0) * np.exp(-k * self.r64 * tau))

    def lipschitz(self, k=1.0):
        return abs(k) * float(np.max(np.abs(self.r64))) * 3.0

    def deriv4_scale(self, k=1.0):
        return 24.0 * (abs(k) * float(np.max(np.abs(self.r64)))) ** 4 + 1e-12

    def sensitivity(self, tj, tN, yj, k=1.0):
        yj = np.asarray(yj, dtype=np.float64)
        tau = float(tN) - float(tj)
        e = np.exp(-k * self.r64 * tau)
        yN = 1.0 / (1.0 + (1.0 / yj - 1.0) * e)
        return float(np.max(np.abs(yN ** 2 * e / yj ** 2)))


class CosDecay(Problem):
    """elementwise y' = k a cos(w t + p) y : time dependent, closed form."""
    has_exact = True
    autonomous = False

    def __init__(self, desc):
        super().__init__(desc)
        self.a64 = np.asarray(self.params["a"], dtype=np.float64).reshape(self.shape)
        self.w64 = float(self.params["w"])
        self.p64 = float(self.params["p"])

    def f(self, t, y, k=1.0, **kw):
        y = np.asarray(y)
        t = np.asarray(t, dtype=y.dtype)
        a = self.a64.astype(y.dtype)
        return k * a * np.cos(y.dtype.type(self.w64) * t + y.dtype.type(self.p64)) * y

    def jac(self, t, y, k=1.0, **kw):
        y = np.asarray(y)
        t = np.asarray(t, dtype=y.dtype)
        a = self.a64.astype(y.dtype)
        d = (k * a * np.cos(y.dtype.type(self.w64) * t + y.dtype.type(self.p64))).reshape(-1)
        return np.diag(d).reshape(y.shape + y.shape)

    def exact(self, t, t0, y0, k=1.0):
        t = float(t)
        t0 = float(t0)
        y0 = np.asarray(y0, dtype=np.float64)
        return y0 * np.exp(k * self.a64 / self.w64 * (math.sin(self.w64 * t + self.p64) - math.sin(self.w64 * t0 + self.p64)))

    def lipschitz(self, k=1.0):
        return abs(k) * float(np.max(np.abs(self.a64)))

    def amplification(self, t0, t1, k=1.0):
        return math.exp(2.0 * abs(k) * float(np.max(np.abs(self.a64))) / abs(self.w64))

    def deriv4_scale(self, k=1.0):
        return (abs(k) * float(np.max(np.abs(self.a64))) + abs(self.w64)) ** 4

    def sensitivity(self, tj, tN, yj, k=1.0):
        d = math.sin(self.w64 * float(tN) + self.p64) - math.sin(self.w64 * float(tj) + self.p64)
        return float(np.max(np.exp(k * self.a64 / self.w64 * d)))


class SmoothNet(Problem):
    """y' = k * W2 tanh(W1 y + b + v sin(w t)): smooth, nonlinear, time dependent, non-symmetric Jacobian."""
    autonomous = False

    def __init__(self, desc):
        super().__init__(desc)
        n = self.n
        self.W1 = np.asarray(self.params["W1"], dtype=np.float64).reshape(-1, n)
        self.h = self.W1.shape[0]
        self.W2 = np.asarray(self.params["W2"], dtype=np.float64).reshape(n, self.h)
        self.b = np.asarray(self.params["b"], dtype=np.float64)
        self.v = np.asarray(self.params["v"], dtype=np.float64)
        self.w = float(self.params["w"])
        self.autonomous = bool(np.all(self.v == 0.0))

    def _z(self, t, y):
        dt = y.dtype
        t = np.asarray(t, dtype=dt)
        return self.W1.astype(dt) @ y.reshape(-1) + self.b.astype(dt) + self.v.astype(dt) * np.sin(dt.type(self.w) * t)

    def f(self, t, y, k=1.0, **kw):
        y = np.asarray(y)
        return (k * (self.W2.astype(y.dtype) @ np.tanh(self._z(t, y)))).reshape(y.shape)

    def jac(self, t, y, k=1.0, **kw):
        y = np.asarray(y)
        z = self._z(t, y)
        d = 1 - np.tanh(z) ** 2
        J = k * (self.W2.astype(y.dtype) * d[None, :]) @ self.W1.astype(y.dtype)
        return J.reshape(y.shape + y.shape)

    def lipschitz(self, k=1.0):
        return abs(k) * float(np.linalg.norm(self.W2, 2) * np.linalg.norm(self.W1, 2))


class Pendulum(Problem):
    """q' = k p, p' = -k g sin q: separable nonlinear."""
    separable = True

    def __init__(self, desc):
        super().__init__(desc)
        self.m = self.n // 2
        self.g = self.arr(self.params["g"])

    def f(self, t, y, k=1.0, **kw):
        y = np.asarray(y)
        m = self.m
        out = np.empty_like(y)
        out[:m] = k * y[m:]
        out[m:] = -k * self.g.astype(y.dtype) * np.sin(y[:m])
        return out

    def jac(self, t, y, k=1.0, **kw):
        y = np.asarray(y)
        m = self.m
        J = np.zeros((2 * m, 2 * m), dtype=y.dtype)
        g = self.g.astype(y.dtype)
        for i in range(m):
            J[i, m + i] = k
            J[m + i, i] = -k * g[i] * np.cos(y[i])
        return J

    def lipschitz(self, k=1.0):
        return abs(k) * float(1.0 + np.max(np.abs(self.g)))


class TDOsc(Problem):
    """q' = k w p (1 + a sin(W t)), p' = -k w q (1 + b cos(W t)): separable with explicitly time-dependent drift AND kick slopes
    (splitting methods evaluate every sub-step at its own time)."""
    separable = True
    autonomous = False

    def __init__(self, desc):
        super().__init__(desc)
        self.m = self.n // 2
        self.w = self.arr(self.params["w"])
        self.a = float(self.params["a"])
        self.b = float(self.params["b"])
        self.W = float(self.params["W"])

    def f(self, t, y, k=1.0, **kw):
        y = np.asarray(y)
        m = self.m
        w = self.w.astype(y.dtype)
        tt = np.asarray(t, dtype=y.dtype)
        out = np.empty_like(y)
        out[:m] = k * w * y[m:] * (1 + y.dtype.type(self.a) * np.sin(y.dtype.type(self.W) * tt))
        out[m:] = -k * w * y[:m] * (1 + y.dtype.type(self.b) * np.cos(y.dtype.type(self.W) * tt))
        return out

    def jac(self, t, y, k=1.0, **kw):
        y = np.asarray(y)
        m = self.m
        J = np.zeros((2 * m, 2 * m), dtype=y.dtype)
        w = self.w.astype(y.dtype)
        tt = np.asarray(t, dtype=y.dtype)
        ca = 1 + y.dtype.type(self.a) * np.sin(y.dtype.type(self.W) * tt)
        cb = 1 + y.dtype.type(self.b) * np.cos(y.dtype.type(self.W) * tt)
        for i in range(m):
            J[i, m + i] = k * w[i] * ca
            J[m + i, i] = -k * w[i] * cb
        return J

    def lipschitz(self, k=1.0):
        return abs(k) * float(np.max(np.abs(self.w))) * (1.0 + max(abs(self.a), abs(self.b)))


class Ballistic(Problem):
    """q' = k p, p' = -k g: separable, the kick slope is a constant (a program may set such entries of its output buffer once)."""
    separable = True
    has_exact = False

    def __init__(self, desc):
        super().__init__(desc)
        self.m = self.n // 2
        self.g = self.arr(self.params["g"])

    def f(self, t, y, k=1.0, **kw):
        y = np.asarray(y)
        m = self.m
        out = np.empty_like(y)
        out[:m] = k * y[m:]
        out[m:] = -k * self.g.astype(y.dtype)
        return out

    def jac(self, t, y, k=1.0, **kw):
        y = np.asarray(y)
        m = self.m
        J = np.zeros((2 * m, 2 * m), dtype=y.dtype)
        for i in range(m):
            J[i, m + i] = k
        return J

    def lipschitz(self, k=1.0):
        return abs(k)


class DecayMix(Problem):
    """u' = -k lam u (u0 large: the state's magnitude shrinks by orders of magnitude) next to a bounded nonlinear oscillator
    q' = k p, p' = k(-q - b q^3): the scale of the state and the need for Newton iterations are decoupled.  y = (u, q, p)."""

    def __init__(self, desc):
        super().__init__(desc)
        self.lam = float(self.params["lam"])
        self.b = float(self.params["b"])

    def f(self, t, y, k=1.0, **kw):
        y = np.asarray(y)
        out = np.empty_like(y)
        out[0] = -k * y.dtype.type(self.lam) * y[0]
        out[1] = k * y[2]
        out[2] = k * (-y[1] - y.dtype.type(self.b) * y[1] ** 3)
        return out

    def jac(self, t, y, k=1.0, **kw):
        y = np.asarray(y)
        J = np.zeros((3, 3), dtype=y.dtype)
        J[0, 0] = -k * self.lam
        J[1, 2] = k
        J[2, 1] = k * (-1 - 3 * self.b * y[1] ** 2)
        return J

    def lipschitz(self, k=1.0):
        return abs(k) * max(self.lam, 1.0 + 3 * self.b * 4.0)


FAMILIES = {
    "decaymix": DecayMix,
    "ballistic": Ballistic,
    "tdosc": TDOsc,
    "linear": Linear,
    "osc": Oscillators,
    "duffing": Duffing,
    "logistic": Logistic,
    "cosdecay": CosDecay,
    "smoothnet": SmoothNet,
    "pendulum": Pendulum,
}


def make_problem(desc):
    return FAMILIES[desc["family"]](desc)


# ----------------------------------------------------------------------------- generation

def _r(rng, lo, hi, nd=3):
    return round(rng.uniform(lo, hi), nd)


def gen_problem(rng, family=None, dtype="float64", want=None):
    """Draw a problem description.  ``want`` may contain 'separable', 'exact', 'stiff', 'events'."""
    want = want or set()
    if family is None:
        if "events" in want:
            family = "osc"
        elif "separable" in want:
            family = rng.choice(["osc", "duffing", "pendulum", "tdosc"])
        elif "stiff" in want:
            family = "linear"
        elif "exact" in want:
            family = rng.choice(["linear", "osc", "logistic", "cosdecay"])
        else:
            family = rng.choice(["linear", "osc", "duffing", "logistic", "cosdecay", "smoothnet", "smoothnet", "pendulum"])
    desc = {"family": family, "dtype": dtype}
    if family == "linear":
        n = rng.choice([1, 2, 2, 3, 4])
        twod = n == 4 and rng.random() < 0.5
        if "stiff" in want:
            lam = [-_r(rng, 0.5, 2.0)] + [-_r(rng, 5.0, 200.0) for _ in range(n - 1)]
            Q = np.array([[_r(rng, -1, 1) for _ in range(n)] for _ in range(n)]) + 2.0 * np.eye(n)
            A = Q @ np.diag(lam) @ np.linalg.inv(Q)
            A = np.round(A, 6)
        else:
            A = np.array([[_r(rng, -1.2, 1.2) for _ in range(n)] for _ in range(n)])
            A = A - 0.3 * np.eye(n)
        desc["shape"] = [2, 2] if twod else [n]
        desc["params"] = {"A": A.reshape(-1).tolist()}
        desc["y0"] = [_r(rng, -1.5, 1.5) for _ in range(n)]
    elif family == "osc":
        m = rng.choice([1, 1, 2])
        desc["shape"] = [2 * m]
        desc["params"] = {"w": [_r(rng, 0.7, 3.0) for _ in range(m)]}
        desc["y0"] = [_r(rng, 0.4, 1.5) * rng.choice([-1, 1]) for _ in range(2 * m)]
    elif family == "ballistic":
        m = rng.choice([1, 2])
        desc["shape"] = [2 * m]
        desc["params"] = {"g": [_r(rng, 0.5, 9.81) for _ in range(m)]}
        desc["y0"] = [_r(rng, -1.0, 1.0) for _ in range(2 * m)]
    elif family == "tdosc":
        m = rng.choice([1, 1, 2])
        desc["shape"] = [2 * m]
        desc["params"] = {"w": [_r(rng, 0.7, 2.5) for _ in range(m)], "a": _r(rng, 0.2, 0.7), "b": _r(rng, -0.7, 0.7), "W": _r(rng, 1.0, 4.0)}
        desc["y0"] = [_r(rng, 0.4, 1.5) * rng.choice([-1, 1]) for _ in range(2 * m)]
    elif family == "duffing":
        m = rng.choice([1, 2])
        desc["shape"] = [2 * m]
        desc["params"] = {"a": [_r(rng, 0.5, 2.0) for _ in range(m)], "b": [_r(rng, 0.0, 0.8) for _ in range(m)]}
        desc["y0"] = [_r(rng, -1.0, 1.0) for _ in range(2 * m)]
    elif family == "pendulum":
        m = rng.choice([1, 2])
        desc["shape"] = [2 * m]
        desc["params"] = {"g": [_r(rng, 0.5, 3.0) for _ in range(m)]}
        desc["y0"] = [_r(rng, -1.2, 1.2) for _ in range(2 * m)]
    elif family == "logistic":
        shape = rng.choice([[1], [2], [3], [2, 2]])
        n = int(np.prod(shape))
        desc["shape"] = shape
        desc["params"] = {"r": [_r(rng, -2.0, 2.0) for _ in range(n)]}
        desc["y0"] = [_r(rng, 0.1, 0.9) for _ in range(n)]
    elif family == "cosdecay":
        shape = rng.choice([[1], [2], [3]])
        n = int(np.prod(shape))
        desc["shape"] = shape
        desc["params"] = {"a": [_r(rng, -1.5, 1.5) for _ in range(n)], "w": _r(rng, 0.5, 3.0), "p": _r(rng, 0.0, 3.0)}
        desc["y0"] = [_r(rng, 0.3, 1.5) * rng.choice([-1, 1]) for _ in range(n)]
    elif family == "smoothnet":
        shape = rng.choice([[1], [2], [3], [4], [2, 2], [3, 2], [2, 1, 2]])
        n = int(np.prod(shape))
        h = rng.choice([2, 3, 4])
        desc["shape"] = shape
        desc["params"] = {
            "W1": [_r(rng, -1.0, 1.0) for _ in range(h * n)],
            "W2": [_r(rng, -1.0, 1.0) for _ in range(n * h)],
            "b": [_r(rng, -0.5, 0.5) for _ in range(h)],
            "v": [(_r(rng, -0.8, 0.8) if rng.random() < 0.7 else 0.0) for _ in range(h)],
            "w": _r(rng, 0.5, 3.0),
        }
        desc["y0"] = [_r(rng, -1.0, 1.0) for _ in range(n)]
    else:
        raise ValueError(family)
    return desc
