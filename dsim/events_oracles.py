"""Oracles for event detection (C07 soundness, C08 completeness, C09 terminal stop).

Closed-form roots are available for the `osc` family (components are sinusoids) and for pure
time events on any problem.
"""
import math

import numpy as np

from .world import Monitor
from .refmodels import RefHermite, bitwise_equal, eps_of
from .oracles import _f, sgn, op_target


def osc_component(problem, comp, y0, k):
    """component `comp` of the exact solution as R*cos(w*tau - phi): returns (R, w, phi)."""
    m = problem.m
    j = comp % m
    w = float(problem.w64[j]) * float(k)
    q0, p0 = float(y0[j]), float(y0[m + j])
    if comp < m:        # q = q0 cos + p0 sin
        a, b = q0, p0
    else:               # p = p0 cos - q0 sin
        a, b = p0, -q0
    return math.hypot(a, b), w, math.atan2(b, a)


def true_roots(world, ev, ta, tb):
    """closed-form roots of event `ev` along the exact trajectory in [min(ta,tb), max(ta,tb)] with dg/dt at each.
    returns list of (t_root, gdot) sorted by t, or None if no closed form."""
    lo, hi = min(ta, tb), max(ta, tb)
    s = float(ev.scale)
    if ev.kind == "time":
        c = float(ev.c)
        return [(c, s)] if lo <= c <= hi else []
    if ev.kind == "tsin":
        w_, c0 = float(ev.desc["w"]), float(ev.desc["c0"])
        out = []
        n0 = math.floor((lo - c0) * w_ / math.pi) - 1
        n1 = math.ceil((hi - c0) * w_ / math.pi) + 1
        for n in range(int(n0), int(n1) + 1):
            tr = c0 + n * math.pi / w_
            if lo <= tr <= hi:
                out.append((tr, s * w_ * math.cos(n * math.pi)))
        return sorted(out)
    prob = world.problem
    if prob.family != "osc":
        return None
    k = world.system.constants.get("k", 1.0)
    t0 = float(world.scn["system"]["t0"])
    y0 = np.asarray(world.caller_y0_copy, dtype=np.float64)
    R, w, phi = osc_component(prob, ev.comp, y0, k)
    if ev.kind == "dstate":
        # d/dt [R cos(w tau - phi)] = R w cos(w tau - phi + pi/2)
        R, phi = R * abs(w), phi - math.pi / 2 * (1 if w >= 0 else -1)
    c = float(ev.c)
    if R <= 0 or abs(c) >= R or w == 0:
        return []
    th = math.acos(c / R)
    out = []
    # w*(t - t0) - phi = +-th + 2 pi n
    for sign_ in (1.0, -1.0):
        base = (phi + sign_ * th) / w
        period = 2 * math.pi / abs(w)
        n0 = math.floor((lo - t0 - base) / period) - 1
        n1 = math.ceil((hi - t0 - base) / period) + 1
        for n in range(int(n0), int(n1) + 1):
            tr = t0 + base + n * period
            if lo <= tr <= hi:
                gdot = -s * R * w * math.sin(w * (tr - t0) - phi)
                out.append((tr, gdot))
    out.sort()
    return out


def g_math(world, ev, t, y):
    if ev.kind == "dstate":
        return ev.g(t, y, world.f_math(t, y))
    return ev.g(t, y)


def hdot_scale(world, ev, t, y):
    """|d/dt h(t, y(t))| at (t,y): slope of the un-scaled event function along the flow."""
    if ev.kind == "time":
        return 1.0
    if ev.kind == "tsin":
        return abs(float(ev.desc["w"]))
    f = np.asarray(world.f_math(t, y), dtype=np.float64).reshape(-1)
    if ev.kind == "state":
        return abs(float(f[ev.comp])) + 1e-300
    L = world.problem.lipschitz(**world.system.constants)
    return L * float(np.max(np.abs(f))) + 1e-300


class Events(Monitor):
    """One monitor, three families of oracle ids: C07.* (soundness), C08.* (completeness), C09.* (terminal stop)."""

    def __init__(self, props=("C07", "C08", "C09")):
        self.props = set(props)

    def before_op(self, world, i, op, pre):
        self.unexamined = None
        if getattr(self, "last_n_seen", None) is not None and self.last_n_seen < pre["n"] and getattr(self, "last_evs", None):
            # the previous call recorded rows that no callback round followed (it was left by an exception): whatever is monitored, those
            # steps are accepted steps; they are judged once the caller has had the chance to resume (end of this op)
            self.unexamined = (self.last_n_seen - 1, pre["n"] - 1, self.last_evs)
        self.n_seen = pre["n"]
        self.ev_seen = len(world.system.events)
        self.ev0 = len(world.system.events)
        self.start_t = _f(pre["t"][-1])
        self.target = op_target(world, op)
        self.dir = sgn(self.target - self.start_t) if np.isfinite(self.target) else (1 if self.target > 0 else -1)      # an infinite target names the direction itself
        self.rolled_back = False
        self.ic_seen = len(world.icalls)
        self.steps = []         # (row_a, row_b, [event indices appended during this step])

    def _c08_plain(self, world, t, y, a_row, b_row, evs, events, eps, note=""):
        for r in range(a_row, b_row):
            t1, t2 = t[r], t[r + 1]
            for ev in evs:
                g1 = _f(g_math(world, ev, t1, y[r]))
                g2 = _f(g_math(world, ev, t2, y[r + 1]))
                if not (g1 * g2 < 0):
                    continue
                up = g1 < 0 < g2          # along the direction of integration (row order)
                if ev.direction > 0 and not up:
                    continue
                if ev.direction < 0 and up:
                    continue
                world.probe("sign_change_steps")
                l2, h2 = min(t1, t2), max(t1, t2)
                tol2 = 4 * eps * max(1.0, abs(_f(l2)), abs(_f(h2)))
                found = any((e.event is ev) and (l2 - tol2 <= e.t <= h2 + tol2) for e in events)
                if not found:
                    gmin_rel = min(abs(g1), abs(g2)) / (abs(float(ev.scale)) * (abs(float(ev.c)) + 1.0))
                    world.violate("C08", "C08.crossing_reported", "event %d (%s, scale %g, direction %d) changes sign over the accepted step [%r,%r] (g: %.3e -> %.3e) but no event is reported there%s"
                                  % (ev.idx, ev.kind, ev.scale, ev.direction, _f(t1), _f(t2), g1, g2, note), facts={"gmin_rel": gmin_rel})

    # ---------------------------------------------------------------- in loop
    def on_step(self, world, system):
        evs = world.cur_events
        if not evs:
            return
        n = len(system)
        t, y = system.t, system.y
        events = system.events
        new = list(range(self.ev_seen, len(events)))
        a_row, b_row = self.n_seen - 1, n - 1
        dtype = y.dtype
        eps = eps_of(dtype)
        multi = (b_row - a_row) != 1       # terminal rollback: 0 or several rows
        ta, tb = t[a_row], t[b_row]
        lo, hi = min(ta, tb), max(ta, tb)
        tol_t = 4 * eps * max(1.0, abs(_f(lo)), abs(_f(hi)))
        if "C07" in self.props:
            for j in new:
                e = events[j]
                # the step in which it was found: for a rolled-back (terminal) step that is the overshooting step, of which the
                # recorded rows [a_row..b_row] are a part; its far end is not recorded, so only the near end is checked there
                te = e.t
                inside = (lo - tol_t <= te) and ((te <= hi + tol_t) or multi)
                if multi:
                    inside = (te - ta) * self.dir >= -tol_t
                if not inside:
                    world.violate("C07", "C07.inside_step", "event of function %s at t=%r reported while recording step [%r,%r]" % (e.event.idx, _f(te), _f(ta), _f(tb)))
                    continue
                if not multi:
                    fa = np.asarray(world.f_math(ta, y[a_row]), dtype=dtype)
                    fb = np.asarray(world.f_math(tb, y[b_row]), dtype=dtype)
                    ref = RefHermite(ta, tb, y[a_row], y[b_row], fa, fb)
                    want = ref(np.asarray(te, dtype=dtype))
                    err = float(np.max(np.abs(np.asarray(e.y) - want)))
                    bound = 64 * eps * max(ref.scale(), 1e-300)
                    world.ratio("C07.state_is_dense_solution", err / bound)
                    rich = world.scn["system"]["method"].startswith("Rich:") or any(c["kind"] == "rich" for c in world.icalls[-3:])
                    if err > bound and not rich and not any(fr["fault"]["kind"] == "spike" for fr in world.fired):
                        world.violate("C07", "C07.state_is_dense_solution", "event state at t=%r differs from the dense solution of its step by %.3e (> %.3e)" % (_f(te), err, bound))
                    sol = system.sol
                    if sol is not None and sol.t_eval is not None:
                        if not bitwise_equal(np.asarray(sol(te)), np.asarray(e.y)):
                            world.violate("C07", "C07.state_is_dense_solution", "event state at t=%r is not sol(t_e)" % (_f(te),))
                    # crossing sense along the direction of integration, read off the computed trajectory of this step
                    ev = e.event
                    if ev.direction != 0:
                        h = tb - ta
                        delta = h * dtype.type(1e-3)
                        t1 = np.asarray(te - delta, dtype=dtype)
                        t2 = np.asarray(te + delta, dtype=dtype)
                        if (t1 - ta) * self.dir < 0:
                            t1 = np.asarray(ta, dtype=dtype)
                        if (tb - t2) * self.dir < 0:
                            t2 = np.asarray(tb, dtype=dtype)

                        def gg(tt):
                            if ev.kind == "dstate":
                                return _f(ev.g(tt, ref(tt), ref.grad(tt)))
                            return _f(ev.g(tt, ref(tt)))
                        g1, g2 = gg(t1), gg(t2)
                        sense = sgn(g2 - g1)
                        if g1 * g2 < 0 and sense != 0 and sense != sgn(ev.direction):
                            world.violate("C07", "C07.direction_compatible", "event %d requests direction %d but g goes %.3e -> %.3e across t=%r along the direction of integration"
                                          % (ev.idx, ev.direction, g1, g2, _f(te)))
        rolled = any(c.get("nested", 1) >= 2 for c in world.icalls[getattr(self, "ic_seen", 0):])
        self.ic_seen = len(world.icalls)
        if "C08" in self.props and (multi or rolled) and b_row > a_row:
            # the step that was cut at a terminal event: its sub-steps (taken only to land on the event) are one accepted step
            # [t_a, t_stop].  Detection ran on the attempted (discarded) step [t_a, t_b], and the stop row is on the event surface
            # only to truncation level (C09), so a missing report is classified: `rollback_artefact` when the attempted step showed
            # no sign change of that function, or the crossing is within the stop row's own distance from the surface
            att = None
            for c in reversed(world.icalls):
                if c["depth"] == 0 and c.get("nested") == 1 and c["ok"] and bitwise_equal(np.asarray(c["t0"]), np.asarray(ta)):
                    att = c
                    break
            term = [e_ for e_ in events[self.ev_seen:] if e_.event.is_terminal]
            for ev in evs:
                gs = [_f(g_math(world, ev, t[r], y[r])) for r in range(a_row, b_row + 1)]
                if not any(gs[q] * gs[q + 1] < 0 for q in range(len(gs) - 1)):
                    continue
                q0 = [q for q in range(len(gs) - 1) if gs[q] * gs[q + 1] < 0][0]
                up = gs[q0] < 0 < gs[q0 + 1]
                if (ev.direction > 0 and not up) or (ev.direction < 0 and up):
                    continue
                world.probe("sign_change_steps")
                world.probe("sign_change_in_rollback_region")
                found = any((e_.event is ev) and (lo - tol_t <= e_.t <= hi + tol_t) for e_ in events)
                if found:
                    continue
                facts = {"gmin_rel": min(abs(gs[q0]), abs(gs[q0 + 1])) / (abs(float(ev.scale)) * (abs(float(ev.c)) + 1.0))}
                artefact = False
                if att is not None and att.get("dState") is not None:
                    # the only trajectory the library examines is the Hermite interpolant of the attempted step, up to the stop
                    tb_att = att["t0"] + att["dTime"]
                    yb_att = att["y0"] + att["dState"]
                    fa_ = np.asarray(world.f_math(ta, y[a_row]), dtype=dtype)
                    fb_ = np.asarray(world.f_math(tb_att, yb_att), dtype=dtype)
                    ref_att = RefHermite(ta, tb_att, y[a_row], yb_att, fa_, fb_)

                    def g_int(tt):
                        tt = np.asarray(tt, dtype=dtype)
                        if ev.kind == "dstate":
                            return _f(ev.g(tt, ref_att(tt), ref_att.grad(tt)))
                        return _f(ev.g(tt, ref_att(tt)))
                    g0_, g1_ = g_int(ta), g_int(tb)
                    if not (g0_ * g_int(tb_att) < 0):
                        artefact = True          # no sign change between the ends of the attempted step: nothing brackets a root there
                    elif not (g0_ * g1_ < 0):
                        artefact = True          # no sign change along the examined trajectory between the start of the step and the stop
                    else:
                        # a crossing within the root finder's resolution of the stop may be located on either side of it
                        slope_ = abs(g1_ - g0_) / max(abs(_f(tb) - _f(ta)), 1e-300)
                        if abs(g1_) <= slope_ * 64 * eps * max(1.0, abs(_f(tb))) + 64 * eps * abs(float(ev.scale)) * (abs(float(ev.c)) + 1.0):
                            artefact = True
                facts["rollback_artefact"] = artefact
                world.violate("C08", "C08.crossing_reported", "event %d (%s, scale %g, direction %d) changes sign over the step cut at a terminal event [%r,%r] (g: %.3e -> %.3e in sub-step %d of %d) but no event is reported there%s"
                              % (ev.idx, ev.kind, ev.scale, ev.direction, _f(ta), _f(tb), gs[q0], gs[q0 + 1], q0 + 1, len(gs) - 1,
                                 " [sub-steps are not monitored: artefact of the roll-back]" if artefact else ""), facts=facts)
        elif "C08" in self.props:
            self._c08_plain(world, t, y, a_row, b_row, evs, events, eps)
        if len(new) >= 2:
            world.probe("multiple_events_in_one_step")
        self.steps.append((a_row, b_row, new))
        self.n_seen = n
        self.ev_seen = len(events)

    # ---------------------------------------------------------------- after op
    def after_op(self, world, i, op, pre, snap):
        evs = world.cur_events
        # bookkeeping for rows that no callback round followed
        if snap["kind"] == "integrate":
            self.last_n_seen = self.n_seen if evs else snap["n"]
            self.last_evs = list(evs) if evs else None
            if snap["n"] < pre["n"]:
                self.last_n_seen = snap["n"]
        elif snap["kind"] == "reset":
            self.last_n_seen, self.last_evs = None, None
        if "C08" in self.props and snap["kind"] == "integrate" and getattr(self, "unexamined", None) and snap["n"] >= self.unexamined[1] + 1:
            a_, b_, evs_prev = self.unexamined
            self.unexamined = None
            world.probe("rows_recorded_without_callback_round")
            self._c08_plain(world, snap["t"], snap["y"], a_, b_, evs_prev, world.system.events, eps_of(snap["y"].dtype),
                            note=" [step recorded by a call that was left by an exception; judged after the resume]")
        if "C09" in self.props and snap["kind"] == "integrate" and snap["exc"] is not None and not world.raised_by_op.get(i) \
                and not any(fr["fault"]["kind"] == "spike" for fr in world.fired):
            # no peer was made to fail in this call: finite or infinite target, either direction, it has to stop at an event or reach its target
            world.violate("C09", "C09.call_raises", "call %d (target %r) raised %s without an injected fault: %s"
                          % (i, op.get("t"), snap["exc_type"], str(snap["exc"])[:100]))
        if snap["kind"] != "integrate" or not evs:
            return
        sysm = world.system
        t, y = snap["t"], snap["y"]
        dtype = y.dtype
        eps = eps_of(dtype)
        events = sysm.events
        new = list(range(self.ev0, len(events)))
        if "C09" in self.props and snap["exc"] is None and "terminated upon finding" in snap["status"] and snap["n"] > pre["n"] \
                and not any(events[j].event.is_terminal for j in new):
            short = (not np.isfinite(self.target)) or abs(_f(t[-1]) - self.target) > 64 * eps * max(1.0, abs(self.target), abs(self.start_t))
            # (a stop at a terminal event that an earlier, interrupted call had already recorded is reported there, not again)
            at_recorded = any(e_.event.is_terminal and abs(_f(e_.t) - _f(t[-1])) <= 4 * eps ** 0.7 * max(1.0, abs(_f(t[-1]))) for e_ in events)
            if short and not at_recorded:
                world.violate("C09", "C09.terminal_event_reported", "call %d stopped at t=%r short of its target %r with status 'terminated by event', but reported no terminal event (%d new events)"
                              % (i, _f(t[-1]), self.target, len(new)))
        terminated = ("terminated upon finding" in snap["status"] and snap["exc"] is None
                      and any(events[j].event.is_terminal for j in new))        # the status text survives later calls
        spiked = any(fr["fault"]["kind"] == "spike" for fr in world.fired)
        k = world.system.constants.get("k", 1.0)
        exact_ok = world.problem.has_exact and not spiked
        if "C09" in self.props and snap["exc"] is None and i > 0:
            # "a later call continues from the event point": a call that starts on the terminal stop of the previous call - whatever it
            # monitors, the same terminal event included - has to move on (to its target or to a LATER terminal crossing)
            prev = world.snaps[i - 1]
            prev_stop = (prev["kind"] == "integrate" and prev["exc"] is None and "terminated upon finding" in prev["status"] and prev["n"] >= 1
                         and prev["events"] and abs(_f(prev["events"][-1][0]) - _f(prev["t"][-1])) <= 4 * eps * max(1.0, abs(_f(prev["t"][-1]))))
            far = np.isfinite(self.target) and abs(self.target - self.start_t) > 1e-6 * max(1.0, abs(self.start_t)) or not np.isfinite(self.target)
            if prev_stop and far:
                world.probe("continued_from_terminal_stop")
                if snap["n"] == pre["n"]:
                    world.violate("C09", "C09.continues_after_stop", "call %d starts on the terminal stop at t=%r and was asked to go to %r, but recorded no step (status: %s)"
                                  % (i, self.start_t, self.target, snap["status"][:60]))
                else:
                    # ... and moving on means getting away from the crossing it started on: a call that is stopped again by the SAME function
                    # within 1e-4 of where it started (the generator keeps genuine crossings of one function >= 1e-3 apart) has met the
                    # crossing it was sitting on once more
                    prev_ev = prev["events"][-1]
                    new_term = [events[j] for j in new if events[j].event.is_terminal]
                    if new_term and "terminated upon finding" in snap["status"] and new_term[-1].event.idx == prev_ev[2] \
                            and abs(_f(new_term[-1].t) - _f(prev_ev[0])) <= 1e-4 * max(1.0, abs(_f(prev_ev[0]))):
                        ev_ = new_term[-1].event
                        g_stop = None
                        try:
                            yp_ = np.asarray(prev["y"][-1])
                            g_stop = float(ev_.g(prev["t"][-1], yp_, world.f_math(prev["t"][-1], yp_) if ev_.kind == "dstate" else None))
                        except Exception:
                            pass
                        world.violate("C09", "C09.restops_at_same_crossing", "call %d starts on the terminal stop of event %d at t=%r and is stopped by the same crossing again at t=%r "
                                      "(%.3e later; g at the stop point was %r): the crossing is reported twice and the target %r is not reached"
                                      % (i, ev_.idx, _f(prev_ev[0]), _f(new_term[-1].t), abs(_f(new_term[-1].t) - _f(prev_ev[0])), g_stop, self.target),
                                      facts={"event_kind": ev_.kind, "restop_offset__": abs(_f(new_term[-1].t) - _f(prev_ev[0]))})
        # the run's own global error (against the closed form), used to scale the analytic bounds
        E = None
        if exact_ok and snap["n"] >= 2:
            y0 = np.asarray(y[0], dtype=np.float64)
            E = 0.0
            for j in range(snap["n"]):
                E = max(E, float(np.max(np.abs(np.asarray(y[j], dtype=np.float64) - world.problem.exact(t[j], t[0], y0, k=k)))))
        hmax = float(np.max(np.abs(np.diff(np.asarray(t, dtype=np.float64))))) if snap["n"] >= 2 else 0.0
        if "C07" in self.props:
            last_t = None
            per_root = {}
            for j in new:
                e = events[j]
                ev = e.event
                te = _f(e.t)
                # order along the direction of integration
                if last_t is not None and (te - last_t) * self.dir < -4 * eps * max(1.0, abs(te)):
                    world.violate("C07", "C07.ordered", "events out of order along the direction of integration: t=%r after t=%r" % (te, last_t))
                last_t = te
                # residual
                gval = abs(_f(g_math(world, ev, e.t, np.asarray(e.y))))
                hd = hdot_scale(world, ev, e.t, np.asarray(e.y))
                hmag = abs(float(ev.c)) + (abs(te) if ev.kind == "time" else (1.0 + abs(float(ev.desc["w"]) * te) if ev.kind == "tsin" else float(np.max(np.abs(np.asarray(e.y, dtype=np.float64))))))
                if ev.kind == "dstate":
                    hmag = abs(float(ev.c)) + float(np.max(np.abs(np.asarray(world.f_math(e.t, np.asarray(e.y)), dtype=np.float64))))
                bound = 64 * abs(float(ev.scale)) * (hd * eps * max(abs(te), 1.0) * 4 + eps * hmag * 8)
                if ev.kind == "dstate":
                    # sol.grad is the derivative of the cubic, not f(sol): the event function sees dy from the interpolant
                    bound = None
                if bound is not None:
                    bound = max(bound, 16 * eps)        # "~0": rounding level relative to the scale, or machine-epsilon level in absolute terms
                    world.ratio("C07.residual_small", gval / bound)
                    if gval > bound:
                        world.violate("C07", "C07.residual_small", "|g(t_e,y_e)| = %.3e > %.3e for event %d (%s, scale %g) at t=%r" % (gval, bound, ev.idx, ev.kind, ev.scale, te))
                # closed-form root
                roots = true_roots(world, ev, _f(t[0]) - 0.0, te + self.dir * (10 * hmax + 1e-3)) if exact_ok else None
                if roots is not None and E is not None:
                    if not roots:
                        world.violate("C07", "C07.near_true_root", "event %d reported at t=%r but the exact trajectory has no root of it up to there" % (ev.idx, te))
                        continue
                    tr, gdot = min(roots, key=lambda r_: abs(r_[0] - te))
                    slope = abs(gdot) / abs(float(ev.scale))
                    interp = 0.0
                    if hmax > 0:
                        interp = 1.5 * hmax ** 4 / 384 * world.problem.deriv4_scale(k) * float(np.max(np.abs(np.asarray(y, dtype=np.float64)))) * 4
                    if ev.kind == "dstate":
                        # the event function sees the derivative of the cubic interpolant: O(h^3) instead of O(h^4)
                        Lp_ = world.problem.lipschitz(k)
                        interp = interp * 0.0 + (0.01 * hmax ** 3 * world.problem.deriv4_scale(k) * float(np.max(np.abs(np.asarray(y, dtype=np.float64)))) * 4)
                        tb_ = 30 * (E * Lp_ + interp) / max(slope, 1e-300) + 64 * eps * max(1.0, abs(te)) + 1e-14
                    else:
                        tb_ = 30 * (E + interp) / max(slope, 1e-300) + 64 * eps * max(1.0, abs(te)) + 1e-14
                    d = abs(tr - te)
                    world.ratio("C07.near_true_root", d / tb_)
                    if d > tb_:
                        world.violate("C07", "C07.near_true_root", "event %d at t=%r is %.3e away from the nearest true root %r (> %.3e)" % (ev.idx, te, d, tr, tb_))
                        continue
                    key = (ev.idx, round(tr, 9))
                    per_root.setdefault(key, []).append(te)
                elif roots is None:
                    # no closed form: uniqueness by distance only
                    key = (ev.idx, None)
                    for other in per_root.get(key, []):
                        if abs(other - te) <= 100 * math.sqrt(eps) * max(hmax, 1e-300):
                            world.violate("C07", "C07.unique", "event %d reported twice: t=%r and t=%r" % (ev.idx, other, te))
                    per_root.setdefault(key, []).append(te)
            # uniqueness over the whole history for this function (also across split calls): two reports of the same function
            # closer than 1e-7 (relative) are the same crossing -- the generator keeps genuine roots >= 1e-3 apart
            last = {}
            for e in events:
                ev = e.event
                te = _f(e.t)
                if ev.idx in last and abs(te - last[ev.idx]) <= 1e-7 * max(1.0, abs(te)):
                    world.violate("C07", "C07.unique", "the crossing of event %d near t=%r is reported twice (t=%r and t=%r)" % (ev.idx, te, last[ev.idx], te))
                    break
                last[ev.idx] = te
        if "C09" in self.props:
            term_events = [events[j] for j in new if events[j].event.is_terminal]
            if terminated:
                world.probe("terminal_stop")
                if not new or not events[new[-1]].event.is_terminal:
                    world.violate("C09", "C09.last_event_is_terminal", "status says terminated by event but the last reported event is not terminal")
                    return
                e = events[new[-1]]
                ev = e.event
                te = e.t
                tol_t = 32 * eps * max(1.0, abs(_f(te)))        # the library's own loop-exit window (as in C03)
                if abs(_f(t[-1] - te)) > tol_t:
                    world.violate("C09", "C09.stops_at_event_time", "last recorded time %r differs from the terminal event time %r" % (_f(t[-1]), _f(te)))
                if np.any((np.asarray(t[self.n_before(pre):], dtype=np.float64) - _f(te)) * self.dir > tol_t):
                    world.violate("C09", "C09.nothing_beyond_event", "a recorded time lies beyond the terminal event at %r" % _f(te))
                if len(term_events) != 1:
                    world.violate("C09", "C09.only_earliest_terminal", "%d terminal events reported in one call" % len(term_events))
                if not snap["success"]:
                    world.violate("C09", "C09.status_success", "terminated by event but success is False")
                # on the event surface (to the accuracy of the run)
                if exact_ok and E is not None:
                    gv = abs(_f(g_math(world, ev, t[-1], y[-1])))
                    hd = hdot_scale(world, ev, t[-1], y[-1])
                    over = [c for c in world.icalls if c["op"] == i and c["depth"] == 0 and c["nested"] == 1 and c["ok"]]
                    h_over = max(hmax, abs(_f(over[-1]["dTime"])) if over else 0.0)     # the root was located on the interpolant of the rolled-back step
                    interp = 1.5 * h_over ** 4 / 384 * world.problem.deriv4_scale(k) * float(np.max(np.abs(np.asarray(y, dtype=np.float64)))) * 4 if h_over > 0 else 0.0
                    Lp = world.problem.lipschitz(k) if ev.kind == "dstate" else 1.0
                    if ev.kind == "dstate":
                        # located on the derivative of the cubic interpolant: O(h^3)
                        interp = 0.01 * h_over ** 3 * world.problem.deriv4_scale(k) * float(np.max(np.abs(np.asarray(y, dtype=np.float64)))) * 4
                    Ks = 3000 if ev.kind == "dstate" else 200        # calibrated: >= 10x the largest ratio seen on the unchanged tree (see evidence)
                    bound = abs(float(ev.scale)) * (Ks * (E * max(Lp, 1.0) + interp) + 64 * eps * (1 + hd) * max(1.0, abs(_f(te))))
                    world.ratio("C09.on_event_surface_" + ev.kind, gv / bound * (Ks / 20.0))
                    if gv > bound:
                        world.violate("C09", "C09.on_event_surface", "|g(t[-1],y[-1])| = %.3e > %.3e at the terminal stop (event %d, scale %g)" % (gv, bound, ev.idx, ev.scale))
                    # earliest terminal root of the exact trajectory
                    first = None
                    for tev in [x for x in evs if x.is_terminal]:
                        rts = true_roots(world, tev, self.start_t, _f(te) + self.dir * (10 * hmax + 1e-3))
                        if rts is None:
                            first = None
                            break
                        for (tr, gdot) in rts:
                            sense = sgn(gdot) * self.dir
                            if tev.direction != 0 and sense != sgn(tev.direction):
                                continue
                            if abs(tr - self.start_t) <= 1e-3 + 100 * (E + interp):
                                continue        # a root at the starting point of this call (continuation after a stop there)
                            if first is None or (tr - first[0]) * self.dir < 0:
                                first = (tr, tev.idx)
                    if first is not None:
                        slope = 1e-300
                        # how far the located stop may be from the exact earliest root: slope-dependent events are located on
                        # the derivative of the interpolant (one order less accurate)
                        has_d = any(x.kind == "dstate" for x in evs if x.is_terminal)
                        tb_ = (0.05 + 1000 * (E + interp)) if has_d else (1e-3 + 100 * (E + interp))
                        if (_f(te) - first[0]) * self.dir > tb_:
                            world.violate("C09", "C09.only_earliest_terminal", "stopped at t=%r but terminal event %d has an earlier true root at %r" % (_f(te), first[1], first[0]))
            else:
                if term_events and snap["exc"] is None:
                    world.violate("C09", "C09.terminal_event_stops", "a terminal event was reported at t=%r but the integration did not stop there (status %r)" % (_f(term_events[0].t), snap["status"][:50]))

    def n_before(self, pre):
        return max(pre["n"] - 1, 0)


def terminated_events_distinct(a, b):
    return a is not b
