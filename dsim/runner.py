"""Batch runner: seeded search over scenarios, classification, known findings, minimisation,
replay files and evidence.  One integer (VERIF_SEED) decides everything."""
import concurrent.futures as cf
import faulthandler
import hashlib
import json
import multiprocessing as mp
import os
import subprocess
import sys
import time
import traceback

VERIF = os.path.dirname(os.path.dirname(os.path.abspath(__file__)))


def canon(scn):
    return json.dumps(scn, sort_keys=True, separators=(",", ":"))


def scn_digest(scn):
    d = dict(scn)
    d.pop("expect", None)
    d.pop("seed", None)
    return hashlib.sha256(canon(d).encode()).hexdigest()[:16]


class CaseResult(dict):
    """violations: [{property, oracle, detail, op}], outcome: pass|violation|budget|wall|harness_error"""


def run_scenario_safe(prop, scn):
    """Run one scenario under property `prop`; never raises."""
    from .peers import BudgetExceeded, WallTimeout
    from .world import _HarnessAbort
    t0 = time.time()
    res = {"violations": [], "outcome": "pass", "probes": {}, "fired": {}, "phases": {}, "ratios": {}, "steps": 0, "peer_calls": 0,
           "sim_time": 0.0, "worlds": 0, "digest": None, "state_keys": [], "nontrivial": False, "error": None}
    try:
        prop.run(scn, res)
    except BudgetExceeded:
        res["outcome"] = "budget"
    except WallTimeout:
        res["outcome"] = "wall"
    except _HarnessAbort as e:
        res["outcome"] = "harness_error"
        res["error"] = str(e)
    except KeyboardInterrupt:
        raise
    except BaseException:
        res["outcome"] = "harness_error"
        res["error"] = traceback.format_exc()
    if res["outcome"] == "pass" and res["violations"]:
        res["outcome"] = "violation"
    res["wall"] = time.time() - t0
    return res


def absorb(res, world):
    """fold one finished world's measurements into a case result."""
    res["worlds"] += 1
    for k, v in world.probes.items():
        res["probes"][k] = res["probes"].get(k, 0) + v
    for f in world.fired:
        key = f["fault"]["seam"] + "_" + f["fault"]["kind"]
        res["fired"][key] = res["fired"].get(key, 0) + 1
        res["phases"][f["phase"]] = res["phases"].get(f["phase"], 0) + 1
    for k, v in world.ratios.items():
        if v > res["ratios"].get(k, -1):
            res["ratios"][k] = v
    res["steps"] += world.top_icalls_done
    res["peer_calls"] += world.seq
    res["sim_time"] += world.sim_time


def _worker(args):
    pid, seeds, tier, repo = args
    os.environ["DSIM_REPO"] = repo
    from . import boot
    boot.boot()
    from . import props
    prop = props.get(pid)
    faulthandler.dump_traceback_later(600, exit=True)
    out = []
    for seed in seeds:
        try:
            scns = prop.generate(seed, tier)
        except BaseException:
            out.append({"seed": seed, "outcome": "harness_error", "error": traceback.format_exc(), "violations": [], "cases": 0})
            continue
        agg = {"seed": seed, "cases": 0, "outcomes": {}, "violations": [], "probes": {}, "fired": {}, "phases": {}, "ratios": {},
               "steps": 0, "peer_calls": 0, "sim_time": 0.0, "worlds": 0, "digests": [], "nontrivial": 0, "state_keys": [],
               "errors": [], "sample": None}
        for scn in scns:
            # watchdog per case (every case also has its own SIGALRM wall): a chunk of many derived cases may legitimately take long
            faulthandler.cancel_dump_traceback_later()
            faulthandler.dump_traceback_later(600, exit=True)
            r = run_scenario_safe(prop, scn)
            agg["cases"] += 1
            agg["outcomes"][r["outcome"]] = agg["outcomes"].get(r["outcome"], 0) + 1
            for key in ("probes", "fired", "phases"):
                for k, v in r[key].items():
                    agg[key][k] = agg[key].get(k, 0) + v
            for k, v in r["ratios"].items():
                if v > agg["ratios"].get(k, -1):
                    agg["ratios"][k] = v
            for key in ("steps", "peer_calls", "sim_time", "worlds"):
                agg[key] += r[key]
            if r["nontrivial"]:
                agg["nontrivial"] += 1
                agg["digests"].append(scn_digest(scn))
            agg["state_keys"].extend(r["state_keys"])
            if r["outcome"] == "harness_error":
                agg["errors"].append(r["error"])
            if r["violations"]:
                agg["violations"].append({"scenario": scn, "violations": r["violations"][:8]})
            if agg["sample"] is None and r["nontrivial"]:
                agg["sample"] = scn
        agg["state_keys"] = sorted(set(agg["state_keys"]))
        out.append(agg)
    faulthandler.cancel_dump_traceback_later()
    return out


def load_known():
    p = os.path.join(VERIF, "known_findings.json")
    if not os.path.exists(p):
        return []
    return json.load(open(p))["findings"]


def matches_known(entry, prop, scn, viol):
    oracles_ = entry["oracle"] if isinstance(entry["oracle"], list) else [entry["oracle"]]
    if entry.get("status") != "open" or entry["property"] != prop.pid or viol["oracle"] not in oracles_:
        return False
    facts = dict(prop.facts(scn, viol))
    facts.update(viol.get("facts") or {})
    for k, want in entry.get("when", {}).items():
        if k.endswith("__le") or k.endswith("__ge"):
            got = facts.get(k[:-4])
            if got is None or (k.endswith("__le") and not got <= want) or (k.endswith("__ge") and not got >= want):
                return False
            continue
        got = facts.get(k)
        if isinstance(want, list):
            if got not in want:
                return False
        elif got != want:
            return False
    return True


def replay_in_fresh_process(pid, path, repo):
    env = dict(os.environ)
    env["DSIM_REPO"] = repo
    p = subprocess.run([sys.executable, os.path.join(VERIF, "check"), pid, "--replay", path, "--quiet"], env=env,
                       capture_output=True, text=True, timeout=600)
    return p.returncode, p.stdout + p.stderr


def main_check(pid, tier, seed, jobs=16, repo="/repo", nseeds=None, wall_cap=None, verbose=True):
    from . import boot
    boot.boot()
    from . import props, minimise
    prop = props.get(pid)
    t_start = time.time()
    known = load_known()
    printed = []
    exit_code = 0
    harness_problems = []

    # 1. pinned replays: open findings must still reproduce (reported, exit 0); fixed ones must pass
    known_reproduced = []
    regress_fail = []
    for e in known:
        if e["property"] != pid or not e.get("replay"):
            continue
        path = os.path.join(VERIF, e["replay"])
        scn = json.load(open(path))
        r = run_scenario_safe(prop, scn)
        hit = [v for v in r["violations"] if v["oracle"] == e["oracle"] or (isinstance(e["oracle"], list) and v["oracle"] in e["oracle"])]
        if e["status"] == "open":
            if hit:
                known_reproduced.append(e["id"])
            print("KNOWN-FINDING: property=%s %s [%s; replay %s %s]" % (pid, e["what"], e["id"], e["replay"],
                                                                          "reproduces" if hit else "NO LONGER REPRODUCES"))
        else:
            if r["outcome"] == "harness_error":
                harness_problems.append("regression replay %s: %s" % (e["replay"], r["error"]))
            elif r["violations"]:
                vs_ = [v for v in r["violations"] if not any(matches_known(e2, prop, scn, v) for e2 in known)]
                if vs_:
                    regress_fail.append((path, vs_[0]))
    rdir = os.path.join(VERIF, "replays", "regress", pid)
    if os.path.isdir(rdir):
        for fn in sorted(os.listdir(rdir)):
            if not fn.endswith(".json"):
                continue
            path = os.path.join(rdir, fn)
            scn = json.load(open(path))
            r = run_scenario_safe(prop, scn)
            if r["outcome"] == "harness_error":
                harness_problems.append("regression replay %s: %s" % (path, r["error"]))
            elif r["violations"]:
                vs = [v for v in r["violations"] if not any(matches_known(e, prop, scn, v) for e in known)]
                if vs:
                    regress_fail.append((path, vs[0]))
    for path, v in regress_fail:
        print("VIOLATION property=%s replay=%s" % (pid, path))
        print("  oracle=%s %s" % (v["oracle"], v["detail"][:300]))
        exit_code = 1

    # 2. seeded exploration
    n = nseeds if nseeds is not None else prop.budget(tier)["seeds"]
    cap = wall_cap if wall_cap is not None else prop.budget(tier)["wall_cap"]
    seeds = [seed * 1000003 + i for i in range(n)]
    chunk = max(1, min(prop.budget(tier).get("chunk", 8), (n + jobs * 4 - 1) // (jobs * 4)))
    chunks = [seeds[i:i + chunk] for i in range(0, n, chunk)]
    results = []
    ctx = mp.get_context("fork")
    submitted = 0
    with cf.ProcessPoolExecutor(max_workers=jobs, mp_context=ctx) as ex:
        futs = {}
        it = iter(chunks)
        pending = set()

        def submit_more():
            nonlocal submitted
            while len(pending) < jobs * 2:
                if time.time() - t_start > cap:
                    return
                try:
                    c = next(it)
                except StopIteration:
                    return
                try:
                    f = ex.submit(_worker, (pid, c, tier, repo))
                except cf.process.BrokenProcessPool as e:
                    harness_problems.append("worker pool broke (%r); %d seeds were not run" % (e, n - submitted))
                    return
                futs[f] = c
                pending.add(f)
                submitted += len(c)
        submit_more()
        while pending:
            done, _ = cf.wait(pending, timeout=900, return_when=cf.FIRST_COMPLETED)
            if not done:
                harness_problems.append("worker pool made no progress for 900 s")
                for f in pending:
                    f.cancel()
                break
            for f in done:
                pending.discard(f)
                try:
                    results.extend(f.result())
                except BaseException as e:
                    harness_problems.append("worker failed on seeds %r: %r" % (futs[f][:3], e))
            submit_more()
    results.sort(key=lambda r: r["seed"])

    # 3. classify
    totals = {"cases": 0, "outcomes": {}, "probes": {}, "fired": {}, "phases": {}, "ratios": {}, "steps": 0, "peer_calls": 0,
              "sim_time": 0.0, "worlds": 0, "nontrivial": 0}
    digests = set()
    state_keys = set()
    samples = []
    backstop_seeds = []
    new_viol = []
    known_hits = {}
    for r in results:
        if r.get("outcome") == "harness_error":
            harness_problems.append("generator failed for seed %d: %s" % (r["seed"], r["error"]))
            continue
        totals["cases"] += r["cases"]
        for key in ("outcomes", "probes", "fired", "phases"):
            for k, v in r[key].items():
                totals[key][k] = totals[key].get(k, 0) + v
        for k, v in r["ratios"].items():
            if v > totals["ratios"].get(k, -1):
                totals["ratios"][k] = v
        for key in ("steps", "peer_calls", "sim_time", "worlds", "nontrivial"):
            totals[key] += r[key]
        digests.update(r["digests"])
        state_keys.update(r["state_keys"])
        if r["outcomes"].get("budget", 0) + r["outcomes"].get("wall", 0):
            backstop_seeds.append(r["seed"])
        for e in r["errors"][:1]:
            harness_problems.append("seed %d: %s" % (r["seed"], e))
        if r["sample"] is not None and len(samples) < 3:
            samples.append(r["sample"])
        for item in r["violations"]:
            scn = item["scenario"]
            for v in item["violations"]:
                ks = [e for e in known if matches_known(e, prop, scn, v)]
                if ks:
                    known_hits[ks[0]["id"]] = known_hits.get(ks[0]["id"], 0) + 1
                else:
                    new_viol.append((r["seed"], scn, v))
                    break

    # 4. minimise + replay the first few distinct new violations
    reported = {}
    for seed_i, scn, v in new_viol:
        if v["oracle"] in reported or len(reported) >= 3:
            continue
        small = minimise.minimise(prop, scn, v["oracle"], budget_s=60 if tier == "quick" else 180)
        small["expect"] = {"property": pid, "oracle": v["oracle"], "detail": v["detail"][:400]}
        d = os.path.join(VERIF, "replays", pid)
        os.makedirs(d, exist_ok=True)
        path = os.path.join(d, "%s-%d.json" % (v["oracle"].replace("/", "_"), seed_i))
        json.dump(small, open(path, "w"), indent=1, sort_keys=True)
        rc, out = replay_in_fresh_process(pid, path, repo)
        if rc != 1:
            full = dict(scn)
            full["expect"] = small["expect"]
            json.dump(full, open(path, "w"), indent=1, sort_keys=True)
            rc, out = replay_in_fresh_process(pid, path, repo)
        if rc == 1:
            print("VIOLATION property=%s replay=%s" % (pid, path))
            print("  oracle=%s seed=%d %s" % (v["oracle"], seed_i, v["detail"][:300]))
            reported[v["oracle"]] = path
            exit_code = 1
        else:
            harness_problems.append("violation %s at seed %d did not reproduce in a fresh interpreter (rc=%s): %s" % (v["oracle"], seed_i, rc, out[-500:]))

    bad = totals["outcomes"].get("budget", 0) + totals["outcomes"].get("wall", 0)
    if totals["cases"] and bad > 0.03 * totals["cases"] + 2:
        harness_problems.append("%d of %d cases hit the budget/wall backstop" % (bad, totals["cases"]))
    if totals["cases"] == 0:
        harness_problems.append("no case was executed")
    wall = time.time() - t_start
    ev = {
        "property_id": pid, "tier": tier, "seed": int(seed), "level": prop.level,
        "coverage": {
            "evaluations": int(totals["cases"]),
            "distinct_nontrivial": int(len(digests)),
            "rule": prop.rule,
            "samples": samples[:3],
            "seeds_run": len(results), "seeds_planned": n, "simulated_worlds": totals["worlds"],
            "runs_per_hour": int(totals["cases"] / max(wall, 1e-9) * 3600),
            "seeds_per_hour": int(len(results) / max(wall, 1e-9) * 3600),
            "simulated_time_units": round(totals["sim_time"], 3), "recorded_steps": totals["steps"], "peer_calls": totals["peer_calls"],
            "faults_fired": totals["fired"], "crash_phases": totals["phases"], "probes": totals["probes"],
            "outcomes": totals["outcomes"], "distinct_states": len(state_keys), "distinct_states_measure": prop.state_measure,
            "oracle_max_ratio": {k: float("%.3g" % v) for k, v in sorted(totals["ratios"].items())},
            "components": prop.components, "excluded": prop.excluded,
            "known_findings_reproduced": known_reproduced, "known_finding_hits_in_exploration": known_hits,
            "exhaustive": False, "backstop_seeds": backstop_seeds[:20],
        },
        "assumptions": prop.assumptions,
        "wall_s": round(wall, 2),
        "violations": len(reported) + len(regress_fail),
    }
    if harness_problems:
        ev["coverage"]["harness_problems"] = harness_problems[:10]
    os.makedirs(os.path.join(VERIF, "evidence"), exist_ok=True)
    with open(os.path.join(VERIF, "evidence", "%s.json" % pid), "w") as fh:
        json.dump(ev, fh, indent=1, sort_keys=True)
    if verbose:
        print("%s %s: %d cases from %d seeds in %.1fs; outcomes %s; faults fired %s; distinct nontrivial %d; states %d"
              % (pid, tier, totals["cases"], len(results), wall, totals["outcomes"], totals["fired"], len(digests), len(state_keys)))
        if backstop_seeds:
            print("  seeds that hit the peer-call budget / wall backstop: %s" % backstop_seeds[:20])
    if harness_problems:
        for h in harness_problems[:10]:
            print("HARNESS-PROBLEM: %s" % h[:2000], file=sys.stderr)
        if exit_code == 0:
            exit_code = 2
    return exit_code


def main_replay(pid, path, quiet=False):
    from . import boot
    boot.boot()
    from . import props
    prop = props.get(pid)
    scn = json.load(open(path))
    r = run_scenario_safe(prop, scn)
    want = (scn.get("expect") or {}).get("oracle")
    if r["outcome"] == "harness_error":
        print("HARNESS-PROBLEM: %s" % r["error"], file=sys.stderr)
        return 2
    hit = [v for v in r["violations"] if want is None or v["oracle"] == want]
    if not quiet:
        print("outcome=%s digest=%s" % (r["outcome"], r["digest"]))
        for v in r["violations"][:10]:
            print("  %s: %s" % (v["oracle"], v["detail"][:400]))
    if hit:
        print("VIOLATION property=%s replay=%s" % (pid, path))
        return 1
    return 0
