import copy

from .base import Prop
from ..world import World
from .. import oracles, events_oracles, gen


class C09(Prop):
    pid = "C09"
    quick = {"seeds": 2000, "wall_cap": 90, "chunk": 16}
    thorough = {"seeds": 40000, "wall_cap": 1500, "chunk": 32}
    level = "exploration"
    rule = ("one case = one seeded history: integrate with a mix of terminal and non-terminal events (finite target, or +-inf with a guaranteed terminal "
            "time event), then continuation ops (integrate(), integrate() with the non-terminal events, integrate beyond tf) and, in 25% of cases, an rhs "
            "fault somewhere in the first call (often inside the rollback sub-integration) followed by a resume.  Non-trivial = a terminal stop happened "
            "(probe terminal_stop)")
    assumptions = ["stop time equals the event time within 32 eps*max(1,|t|) (the library's loop-exit window)",
                   "'on the event surface' holds to the accuracy of the run: bound 20*(E + O(h^4) of the rolled-back step) * |scale|",
                   "status after a continuation is not asserted", "continuations never pass the already-fired terminal event again (g = 0 at the start would re-trigger it, as in scipy)"]

    def generate(self, seed, tier):
        scn = gen.gen_scenario(seed, self.pid)
        fl = [f for f in scn.get("faults", []) if f["op"] == 0 and f["seam"] == "rhs" and f["kind"] == "raise"]
        r = gen.sub(seed, "rollback_fault")
        if fl and r.random() < 0.7:
            # place the fault INSIDE the re-integration up to the terminal event (the only place where a crash finds the event already
            # recorded and the step rolled back): positions are read off the fault-free twin, never guessed
            base = copy.deepcopy(scn)
            base["faults"] = []
            try:
                w = World(base, monitors=[], wall_s=10)
                w.run()
                nested = set(c["id"] for c in w.icalls if c.get("nested") == 2 and c["op"] == 0)
                ks, k = [], 0
                for c in w.calls_by_op.get(0, []):
                    if c["seam"] == "rhs":
                        k += 1
                        if c["icall"] in nested:
                            ks.append(k)
                if ks:
                    fl[0]["at"] = r.choice(ks)
                    scn["fault_in_rollback"] = True
                    # the calls after the fault have to get done within a generous multiple of what the whole fault-free history needed
                    # (not when a callback of the history assigns dt: a scheduled step of 1e-3 that the failed call leaves in force is the
                    # user's own step, and a later call is entitled to crawl with it)
                    if not any("plan" in (o.get("callbacks") or []) for o in scn["ops"]):
                        scn["op_budgets"] = {str(j): 50 * w.seq + 5000 for j in range(1, len(scn["ops"])) if scn["ops"][j]["op"] == "integrate"}
            except BaseException:
                pass
        return [scn]

    def monitors(self, scn):
        mons = [events_oracles.Events(props=("C09",))]
        if "C09" == "C09":
            mons += [oracles.Structure("C09"), oracles.Dense("C09", accuracy=False)]
        return mons

    def facts(self, scn, viol):
        f = super().facts(scn, viol)
        f["max_scale"] = max([abs(e.get("scale", 1.0)) for e in scn.get("events", [])] or [1.0])
        f["min_scale"] = min([abs(e.get("scale", 1.0)) for e in scn.get("events", [])] or [1.0])
        f["n_integrate_ops"] = len([o for o in scn["ops"] if o["op"] == "integrate"])
        f["has_terminal"] = any(e.get("terminal") for e in scn.get("events", []))
        return f


PROP = C09()
