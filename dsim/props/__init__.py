"""Property registry."""
import importlib

IDS = ["C02", "C03", "C04", "C05", "C06", "C07", "C08", "C09", "C12", "C13", "C15", "C16", "C18", "C19", "C20"]
_cache = {}


def get(pid):
    if pid not in _cache:
        mod = importlib.import_module("dsim.props.%s" % pid)
        _cache[pid] = mod.PROP
    return _cache[pid]
