import copy

import numpy as np

from .base import Prop
from ..world import World, _c
from ..peers import Boom, BudgetExceeded, WallTimeout
from ..runner import absorb
from ..refmodels import eps_of, canon_bytes
from .. import gen, seams

K = 100.0


class MathRHS(object):
    """uncounted rhs with the DiffRHS calling convention (for recomputing stage residuals)."""

    def __init__(self, problem):
        self.problem = problem

    def __call__(self, t, y, **kw):
        return self.problem.f(t, y, **kw)


def system_F(desc, dtype):
    """seeded smooth system F: R^n -> R^n (pure).  returns (F, J_or_None)."""
    kind = desc["kind"]
    shape = tuple(desc["shape"])
    n = int(np.prod(shape))
    A = np.asarray(desc.get("A", np.zeros(n * n)), dtype=np.float64).reshape(n, n).astype(dtype)
    a = np.asarray(desc.get("a", np.ones(n)), dtype=np.float64).astype(dtype)
    eps_c = dtype.type(desc.get("eps", 0.0))

    if kind == "quad":          # x_i^2 - a_i + eps*(A x)_i
        def F(x):
            v = np.asarray(x).reshape(-1)
            return (v * v - a + eps_c * (A @ v)).reshape(np.shape(x))

        def J(x):
            v = np.asarray(x).reshape(-1)
            return np.diag(2 * v) + eps_c * A
    elif kind == "fixedpoint":  # x - 0.5*tanh(A x + a): unique root
        def F(x):
            v = np.asarray(x).reshape(-1)
            return (v - dtype.type(0.5) * np.tanh(A @ v + a)).reshape(np.shape(x))

        def J(x):
            v = np.asarray(x).reshape(-1)
            z = A @ v + a
            return np.eye(n, dtype=dtype) - dtype.type(0.5) * ((1 - np.tanh(z) ** 2)[:, None] * A)
    elif kind == "double":      # (x_i - a_i)^2 + eps*(A (x-a))_i^2 : roots with singular Jacobian
        def F(x):
            v = np.asarray(x).reshape(-1) - a
            return (v * v).reshape(np.shape(x))

        def J(x):
            v = np.asarray(x).reshape(-1) - a
            return np.diag(2 * v)
    elif kind == "noroot":      # x_i^2 + 1 + (A x)_i^2: no real root
        def F(x):
            v = np.asarray(x).reshape(-1)
            w = A @ v
            return (v * v + 1 + w * w).reshape(np.shape(x))

        def J(x):
            v = np.asarray(x).reshape(-1)
            w = A @ v
            return np.diag(2 * v) + 2 * w[:, None] * A
    elif kind == "linsing":     # singular linear map with an inconsistent right-hand side: no root
        def F(x):
            v = np.asarray(x).reshape(-1)
            B = A.copy()
            B[-1, :] = B[0, :]
            r = B @ v - a
            r[-1] = r[0] + 1
            return r.reshape(np.shape(x))

        def J(x):
            B = A.copy()
            B[-1, :] = B[0, :]
            return B
    elif kind == "exp":         # exp(x_i) - a_i + eps*(A x)_i, a_i > 0
        def F(x):
            v = np.asarray(x).reshape(-1)
            return (np.exp(v) - np.abs(a) - dtype.type(0.1) + eps_c * (A @ v)).reshape(np.shape(x))

        def J(x):
            v = np.asarray(x).reshape(-1)
            return np.diag(np.exp(v)) + eps_c * A
    else:
        raise ValueError(kind)
    return F, J


class SolverWorld(World):
    def build(self):
        self.records = []

    def run(self):
        import signal
        old = signal.signal(signal.SIGALRM, self._alarm)
        signal.alarm(int(self.wall_s))
        seams.CURRENT = self
        try:
            self.op_index = -1
            self.op_counts = {}
            self.build()
            for i, op in enumerate(self.scn["ops"]):
                self.op_index = i
                self.op_counts = {}
                self.solve(i, op)
        finally:
            seams.CURRENT = None
            signal.alarm(0)
            signal.signal(signal.SIGALRM, old)
        return self

    def solve(self, i, op):
        from desolver.utilities import optimizer as OPT
        dtype = np.dtype({"float32": np.float32, "float64": np.float64, "longdouble": np.longdouble, "int64": np.float64}[op["dtype"]])
        Fm, Jm = system_F(op["system"], dtype)
        if op.get("f_dtype"):
            # a residual function that works in (and returns) a narrower precision than the initial guess it is handed: THAT function is the
            # system to be solved, its rounding noise included
            fd = np.dtype({"float32": np.float32, "float16": np.float16}[op["f_dtype"]])
            Fn, Jn = system_F(op["system"], fd)

            def Fm(x, _F=Fn, _fd=fd):
                return np.asarray(_F(np.asarray(x).astype(_fd)), dtype=_fd)

            def Jm(x, _J=Jn, _fd=fd):
                return np.asarray(_J(np.asarray(x).astype(_fd)), dtype=_fd)
        w = self

        def F(x, *a, **k):
            kk = w.peer_call("F")
            flt = w.fault_for("F", kk)
            if flt is not None and flt["kind"] == "raise":
                w.fire(flt)
                raise w.make_exc(flt)
            out = Fm(x)
            if flt is not None and flt["kind"] == "nan":
                w.fire(flt)
                out = out * np.nan
            return out

        def J(x, *a, **k):
            w.peer_call("J")
            return Jm(x)
        x0 = np.asarray(op["x0"], dtype=np.float64).astype(dtype).reshape(tuple(op["system"]["shape"]))
        if op["dtype"] == "int64":
            x0 = np.round(x0).astype(np.int64)        # an integer-typed initial guess (np.array([1, 1])): the root is not an integer
        tol = op.get("tol")
        rec = {"op": i, "entry": op["entry"], "x0": _c(x0), "tol": tol, "exc": None, "success": None, "x": None, "dtype": op["dtype"]}
        jac = J if op.get("user_jac") else None
        try:
            if op["entry"] == "nonlinear_roots":
                x, info = OPT.nonlinear_roots(F, x0, jac=jac, tol=tol, maxiter=op.get("maxiter", 200))
                rec["success"] = bool(info[0])
            elif op["entry"] == "newtontrustregion":
                x, info = OPT.newtontrustregion(F, x0, jac=jac, tol=tol, maxiter=op.get("maxiter", 200))
                rec["success"] = bool(info[0])
            else:
                x, info = OPT.hybrj(F, x0, jac if jac is not None else J, tol=tol, maxiter=op.get("maxiter", 200))
                rec["success"] = bool(info[0])
            rec["x"] = _c(x)
            if rec["success"]:
                rec["resid"] = float(np.linalg.norm(np.asarray(Fm(np.asarray(x)), dtype=np.float64)))
        except (BudgetExceeded, WallTimeout):
            raise
        except KeyboardInterrupt as e:
            rec["exc"] = e
        except BaseException as e:
            rec["exc"] = e
        self.records.append(rec)
        self.digest.update(("solve|%d|%s|%s|" % (i, rec["success"], type(rec["exc"]).__name__)).encode())
        if rec["x"] is not None:
            self.digest.update(canon_bytes(rec["x"]))


class C15(Prop):
    pid = "C15"
    level = "exploration"
    quick = {"seeds": 1200, "wall_cap": 90, "chunk": 8}
    thorough = {"seeds": 24000, "wall_cap": 1500, "chunk": 16}
    rule = ("odd seeds, in situ: a short implicit integration (16 implicit classes; float64 -> MINPACK path, longdouble -> built-in dogleg path; FD or user "
            "Jacobian; Newton-cap knob) with back-end faults at the solver seams (MINPACK result marked failed -> real newtontrustregion fallback, LinAlgError, "
            "NaN from the stage function); EVERY return of nonlinear_roots is judged.  even seeds, stand-alone: 1-4 solver calls on seeded smooth systems "
            "(separable quadratics, contraction fixed points, exponentials, double roots with singular Jacobian, systems without a root, inconsistent singular "
            "linear systems; n = 1..12, shapes (n,) and (n,m); with/without user Jacobian; entry points nonlinear_roots / hybrj / newtontrustregion; good, far "
            "singular and wrong-by-1e4..1e7 starting points; float64 and longdouble; optional NaN or exception from F).  Non-trivial = at least one solver call returned; "
            "distinct = distinct canonical scenario JSON")
    assumptions = ["success => ||F(x)||_2 <= 100 * tol * (n + ||x||_2), F recomputed with the mathematical function (not through the counted seam)",
                   "a raised exception or success=False is always acceptable", "stand-alone part is input sampling executed inside the simulator (labelled so)"]

    def generate(self, seed, tier):
        if seed % 2 == 1:
            base = gen.gen_scenario(seed, "C02")
            tries = 0
            while not gen.is_implicit(base["system"]["method"]) and tries < 20:
                tries += 1
                base = gen.gen_scenario(seed * 7919 + tries, "C02")
            base["profile"] = "C15"
            r = gen.sub(seed, "faults15")
            if r.random() < 0.7:
                kind = r.choice(["minpack", "minpack", "linalg", "fnan", "nonconv"])
                if kind == "minpack" and base["problem"]["dtype"] != "longdouble":
                    base["faults"] = [{"op": 0, "seam": "minpack", "at": r.randrange(1, 12), "kind": "fail"} for _ in range(r.choice([1, 2, 3]))]
                elif kind == "fnan":
                    base["faults"] = [{"op": 0, "seam": "solver", "at": r.randrange(1, 12), "kind": "fnan", "fcall": r.randrange(1, 5)}]
                else:
                    base["faults"] = [{"op": 0, "seam": "solver", "at": r.randrange(1, 12), "kind": kind if kind != "minpack" else "nonconv"}]
            return [base]
        r = gen.sub(seed, "ops")
        ops = []
        for j in range(r.randint(1, 4)):
            shape = r.choice([[], [1], [2], [3], [4], [6], [8], [12], [2, 2], [3, 2], [2, 3, 2]])       # [] = 0-d scalar unknown
            n = int(np.prod(shape))
            kind = r.choice(["quad", "quad", "fixedpoint", "fixedpoint", "exp", "double", "noroot", "linsing"])
            desc = {"kind": kind, "shape": shape, "A": [gen.rnd(r, -1, 1, 3) for _ in range(n * n)], "a": [gen.rnd(r, 0.2, 4.0, 3) for _ in range(n)],
                    "eps": r.choice([0.0, 0.01, 0.1])}
            if kind == "fixedpoint":
                desc["A"] = [v * 0.6 for v in desc["A"]]
                desc["a"] = [gen.rnd(r, -1, 1, 3) for _ in range(n)]
            start = r.choice(["good", "good", "far", "zero", "singular", "huge"])
            if start == "good":
                x0 = [(abs(a) ** 0.5 if kind in ("quad",) else a if kind == "double" else 0.1) + gen.rnd(r, -0.2, 0.2, 3) for a in desc["a"]]
            elif start == "far":
                x0 = [gen.rnd(r, -50, 50, 2) for _ in range(n)]
            elif start == "huge":
                # wrong by orders of magnitude: every tolerance that scales with the iterate has to follow it down to the root
                x0 = [gen.rnd(r, 0.3, 1.0, 3) * r.choice([-1, 1]) * 10.0 ** r.choice([4, 5, 7]) for _ in range(n)]
            elif start == "zero":
                x0 = [0.0] * n
            else:
                x0 = [(a if kind == "double" else 0.0) for a in desc["a"]]
                x0[r.randrange(n)] += 1e-9
            dtype = r.choice(["float64", "float64", "longdouble"])
            entry = r.choice(["nonlinear_roots", "nonlinear_roots", "hybrj", "newtontrustregion"])
            tol = r.choice([None, 1e-6, 1e-9, 1e-12])
            ops.append({"system": desc, "x0": x0, "dtype": dtype, "entry": entry, "tol": tol, "user_jac": bool(r.random() < 0.6),
                        "maxiter": r.choice([200, 200, 50, 10])})
            ri_ = gen.sub(seed, "intguess%d" % j)
            if ri_.random() < 0.08 and kind in ("quad", "fixedpoint", "exp") and start in ("good", "zero"):
                ops[-1].update({"dtype": "int64", "entry": ri_.choice(["newtontrustregion", "hybrj", "nonlinear_roots"]), "tol": ri_.choice([1e-6, 1e-9])})
            rn_ = gen.sub(seed, "narrow%d" % j)
            if rn_.random() < 0.12 and kind in ("quad", "fixedpoint", "exp"):
                ops[-1].update({"dtype": "float64", "f_dtype": "float32", "tol": rn_.choice([1e-9, 1e-9, 1e-12]),
                                "entry": rn_.choice(["nonlinear_roots", "nonlinear_roots", "newtontrustregion"])})
                if start in ("huge", "far"):
                    ops[-1]["x0"] = [0.5 + 0.1 * q for q in range(n)]
        scn = {"v": 1, "seed": seed, "profile": "C15", "standalone": True, "problem": {"family": "logistic", "shape": [1], "dtype": "float64", "params": {"r": [1.0]}, "y0": [0.5]},
               "system": {"t0": 0.0, "tf": 1.0, "dt": 0.1, "method": None, "dense": False, "constants": {}}, "knobs": {}, "events": [], "ops": ops, "faults": []}
        rf = gen.sub(seed, "faults")
        if rf.random() < 0.25:
            i = rf.randrange(len(ops))
            seam = rf.choice(["F", "F", "minpack"])
            if seam == "F":
                scn["faults"].append({"op": i, "seam": "F", "at": rf.randrange(1, 30), "kind": rf.choice(["nan", "raise"])})
            else:
                scn["faults"].append({"op": i, "seam": "minpack", "at": 1, "kind": "fail"})
        return [scn]

    def facts(self, scn, viol):
        if scn.get("standalone"):
            op = scn["ops"][viol["op"]] if viol is not None and viol.get("op") is not None and viol["op"] < len(scn["ops"]) else scn["ops"][0]
            return {"mode": "standalone", "entry": op["entry"], "dtype": op["dtype"], "kind": op["system"]["kind"], "method": None, "method_family": None,
                    "direction": None, "dense": False, "events": False, "has_faults": bool(scn.get("faults"))}
        f = super().facts(scn, viol)
        f["mode"] = "insitu"
        f["entry"] = "nonlinear_roots"
        return f

    def run(self, scn, res):
        P = "C15"
        V = res["violations"]

        def bad(oracle, detail, op):
            V.append({"property": P, "oracle": P + "." + oracle, "detail": detail, "op": op})

        if scn.get("standalone"):
            w = SolverWorld(scn, monitors=[])
            try:
                w.run()
            finally:
                absorb(res, w)
                res["digest"] = w.hexdigest()
            returned = 0
            for rec in w.records:
                op = scn["ops"][rec["op"]]
                if rec["exc"] is not None:
                    res["probes"]["solver_raised"] = res["probes"].get("solver_raised", 0) + 1
                    continue
                returned += 1
                if np.shape(rec["x"]) != np.shape(rec["x0"]):
                    bad("shape_preserved", "%s returned shape %r for an initial guess of shape %r" % (rec["entry"], np.shape(rec["x"]), np.shape(rec["x0"])), rec["op"])
                if rec["success"]:
                    res["probes"]["claimed_success"] = res["probes"].get("claimed_success", 0) + 1
                    dtype = np.dtype({"float64": np.float64, "longdouble": np.longdouble, "int64": np.float64}[rec["dtype"]])
                    tol = rec["tol"] if rec["tol"] is not None else 32 * eps_of(dtype)
                    n = int(np.prod(np.shape(rec["x0"])))
                    bound = K * tol * (n + float(np.linalg.norm(np.asarray(rec["x"], dtype=np.float64))))
                    r_ = rec["resid"]
                    res["ratios"]["C15.success_means_solution"] = max(res["ratios"].get("C15.success_means_solution", 0), (r_ / bound) if np.isfinite(r_) else 1e300)
                    if not (r_ <= bound):
                        bad("success_means_solution", "%s (%s, system %s n=%d, start %r..., user_jac=%s) reports success with ||F(x)|| = %.3e > %.3e"
                            % (rec["entry"], rec["dtype"], op["system"]["kind"], n, op["x0"][:2], op["user_jac"], r_, bound), rec["op"])
                else:
                    res["probes"]["reported_failure"] = res["probes"].get("reported_failure", 0) + 1
            res["nontrivial"] = returned >= 1
            kinds = sorted(set((o["entry"], o["dtype"], o["system"]["kind"]) for o in scn["ops"]))
            res["state_keys"] = [repr(("standalone", k_, bool(w.fired))) for k_ in kinds]
            return w
        # ---- in situ
        w = World(scn, monitors=[])
        try:
            w.run()
        finally:
            absorb(res, w)
            res["digest"] = w.hexdigest()
        judged = 0
        math_rhs = MathRHS(w.problem)
        for sv in w.solves:
            if "real_success" not in sv or sv.get("raised"):
                continue
            judged += 1
            if sv["x_shape"] != sv["x0_shape"]:
                bad("shape_preserved", "nonlinear_roots returned shape %r for an initial guess of shape %r" % (sv["x_shape"], sv["x0_shape"]), sv["op"])
            if not sv["real_success"]:
                res["probes"]["reported_failure"] = res["probes"].get("reported_failure", 0) + 1
                continue
            if sv.get("injected") == "fnan":
                continue
            res["probes"]["claimed_success"] = res["probes"].get("claimed_success", 0) + 1
            integ = sv["f_self"]
            args = sv["args"]
            if integ is None or args is None:
                continue
            rhs, t0, y0, h, consts = args
            Fx = integ.algebraic_system(np.asarray(sv["x"]), math_rhs, t0, y0, h, consts)
            r_ = float(np.linalg.norm(np.asarray(Fx, dtype=np.float64)))
            n = int(np.prod(sv["x0_shape"]))
            tol = sv["tol"]
            bound = K * tol * (n + float(np.linalg.norm(np.asarray(sv["x"], dtype=np.float64))))
            res["ratios"]["C15.success_means_solution_insitu"] = max(res["ratios"].get("C15.success_means_solution_insitu", 0), r_ / bound if np.isfinite(r_) else 1e300)
            if not (r_ <= bound):
                bad("success_means_solution", "in situ (%s, %s, solve #%d of op %d): nonlinear_roots reports success with ||F(x)|| = %.3e > %.3e (tol %.2e)"
                    % (scn["system"]["method"], sv["dtype"], sv["n"], sv["op"], r_, bound, tol), sv["op"])
        res["nontrivial"] = judged >= 1
        res["state_keys"] = self.state_keys(scn, w)
        return w


PROP = C15()
