"""Seeded scenario generators (swarm style).  The PRNG is used here and nowhere else."""
import hashlib
import math
import numpy as np
import copy
import random

from .problems import gen_problem

EXPLICIT_FIXED = ["RK5Solver", "RK4Solver", "MidpointSolver", "HeunsSolver", "RalstonsSolver", "EulerSolver", "EulerTrapSolver"]
EXPLICIT_ADAPT = ["RK1412Solver", "RK108Solver", "RK8713MSolver", "RK45CKSolver", "HeunEulerSolver", "DOPRI45"]
SPLIT = ["SymplecticEulerSolver", "BABs9o7HSolver", "ABAs5o6HSolver"]
IMPLICIT_FIXED = ["GaussLegendre4", "GaussLegendre6", "BackwardEuler", "ImplicitMidpoint", "LobattoIIIA2", "LobattoIIIA4",
                  "LobattoIIIB2", "LobattoIIIB4", "LobattoIIIC2", "CrankNicolson", "RadauIA3", "RadauIA5", "RadauIIA3"]
IMPLICIT_ADAPT = ["LobattoIIIC4", "RadauIIA5", "RadauIIA19"]
ORDER = {"RK1412Solver": 14, "RK108Solver": 10, "RK8713MSolver": 8, "RK45CKSolver": 5, "HeunEulerSolver": 2, "DOPRI45": 5,
         "RK5Solver": 5, "RK4Solver": 4, "MidpointSolver": 2, "HeunsSolver": 2, "RalstonsSolver": 2, "EulerSolver": 1,
         "EulerTrapSolver": 2, "SymplecticEulerSolver": 1, "BABs9o7HSolver": 7, "ABAs5o6HSolver": 6,
         "GaussLegendre4": 4, "GaussLegendre6": 6, "BackwardEuler": 1, "ImplicitMidpoint": 2, "LobattoIIIA2": 2,
         "LobattoIIIA4": 4, "LobattoIIIB2": 2, "LobattoIIIB4": 4, "LobattoIIIC2": 2, "LobattoIIIC4": 4, "CrankNicolson": 2,
         "RadauIA3": 3, "RadauIA5": 5, "RadauIIA3": 3, "RadauIIA5": 5, "RadauIIA19": 19}
ALIASES = {"RK45CKSolver": ["RK45", "RK45CK", "Runge-Kutta-Cash-Karp"], "RK4Solver": ["RK4", "Explicit RK4"], "DOPRI45": ["Dormand-Prince"],
           "RK8713MSolver": ["RK87"], "EulerSolver": ["Euler"], "HeunEulerSolver": ["AHE"], "MidpointSolver": ["Midpoint"],
           "ABAs5o6HSolver": ["ABAS5O6H"], "BABs9o7HSolver": ["BABS9O7H"], "RK108Solver": ["RK108"], "RK1412Solver": ["RK1412"]}

FAMILY = {}
for _m in EXPLICIT_FIXED:
    FAMILY[_m] = "explicit_fixed"
for _m in EXPLICIT_ADAPT:
    FAMILY[_m] = "explicit_adaptive"
for _m in SPLIT:
    FAMILY[_m] = "splitting"
for _m in IMPLICIT_FIXED:
    FAMILY[_m] = "implicit_fixed"
for _m in IMPLICIT_ADAPT:
    FAMILY[_m] = "implicit_adaptive"


def method_family(name):
    if name.startswith("Rich:"):
        return "richardson"
    return FAMILY[name]


def base_of(name):
    return name.split(":")[1] if name.startswith("Rich:") else name


def is_adaptive(name):
    return method_family(name) in ("explicit_adaptive", "implicit_adaptive", "richardson")


def is_implicit(name):
    return method_family(base_of(name)).startswith("implicit")


def sub(seed, label):
    h = hashlib.sha256(("%s/%s" % (seed, label)).encode()).digest()
    return random.Random(int.from_bytes(h[:8], "big"))


def rnd(rng, lo, hi, nd=4):
    return round(rng.uniform(lo, hi), nd)


def pick_method(rng, fams):
    fam = rng.choice(fams)
    if fam == "explicit_fixed":
        return rng.choice(EXPLICIT_FIXED)
    if fam == "explicit_adaptive":
        return rng.choice(EXPLICIT_ADAPT)
    if fam == "splitting":
        return rng.choice(SPLIT)
    if fam == "implicit_fixed":
        return rng.choice(IMPLICIT_FIXED)
    if fam == "implicit_adaptive":
        return rng.choice(IMPLICIT_ADAPT)
    if fam == "richardson":
        base = rng.choice(["RK4Solver", "MidpointSolver", "HeunsSolver", "RK5Solver", "RalstonsSolver", "EulerTrapSolver"])
        return "Rich:%s:%d" % (base, rng.choice([2, 3, 3, 4, 5, 5, 6, 7]))
    raise ValueError(fam)


def pick_span(rng, direction=None, length=None):
    """(t0, tf) with every sign combination; direction +1/-1/None(random)."""
    L = length if length is not None else rnd(rng, 0.5, 3.0, 3)
    if direction is None:
        direction = rng.choice([1, 1, -1])
    mode = rng.choice(["zero", "pos", "neg", "mixed", "mixed", "far"])
    if mode == "zero":
        t0 = 0.0
    elif mode == "pos":
        t0 = rnd(rng, 0.5, 12.0, 3)
    elif mode == "neg":
        t0 = -rnd(rng, 0.5, 12.0, 3)
    elif mode == "mixed":
        t0 = -direction * rnd(rng, 0.1, 0.9, 3) * L
    else:
        t0 = rng.choice([-1, 1]) * rnd(rng, 20.0, 200.0, 2)
    tf = round(t0 + direction * L, 6)
    return t0, tf, direction


def tolerances(rng, method, dtype="float64"):
    p = ORDER.get(base_of(method), 4)
    if method.startswith("Rich:"):
        p = p + int(method.split(":")[2]) // 2 + 1
    fam = method_family(method)
    if fam == "implicit_adaptive":
        hi = 5.5
    elif fam == "richardson":
        hi = min(3.0 + p, 8.0)
    else:
        hi = min(2.0 + 1.1 * p, 10.0)
    if dtype == "float32":
        hi = min(hi, 4.5)
    e = rng.uniform(3.0, max(3.2, hi))
    rtol = float("%.2e" % (10 ** (-e)))
    atol = float("%.2e" % (rtol * rng.choice([1.0, 0.1, 0.01])))
    return rtol, atol


def base_scenario(seed, profile, fams, dtype=None, want=None, direction=None, dense=None, length=None, family=None,
                  max_steps=40):
    r_p = sub(seed, "problem")
    r_s = sub(seed, "system")
    r_k = sub(seed, "knobs")
    method = pick_method(r_s, fams)
    want = set(want or ())
    if method_family(method) == "splitting" or (method.startswith("Rich:") and base_of(method) in SPLIT):
        want.add("separable")
    if dtype is None:
        dtype = r_s.choice(["float64"] * 8 + ["float32", "longdouble"])
    prob = gen_problem(r_p, family=family, dtype=dtype, want=want)
    t0, tf, direction = pick_span(r_s, direction, length)
    L = abs(tf - t0)
    nsteps = r_s.choice([2, 3, 4, 5, 6, 8, 10, 12, 16, 20, 25, 33, max_steps])
    nsteps = min(nsteps, max_steps)
    dt = L / nsteps
    if r_s.random() < 0.5:
        dt = 2.0 ** round(math.log2(dt))
    else:
        dt = float("%.4g" % dt)
    if r_s.random() < 0.25:
        dt = -dt      # "wrong"/explicit sign: the library orients dt along the span
    rtol = atol = None
    if is_adaptive(method) or is_implicit(method):
        rtol, atol = tolerances(r_s, method, dtype)
    jac = "none"
    if is_implicit(method):
        jac = r_s.choice(["none", "none", "attr", "hook", "assign"])
    system = {"t0": t0, "tf": tf, "dt": dt, "method": method, "rtol": rtol, "atol": atol,
              "dense": bool(r_s.random() < 0.5) if dense is None else bool(dense), "jac": jac,
              "constants": {"k": r_s.choice([1.0, 1.0, rnd(r_s, 0.5, 1.5, 3)])}}
    if method_family(method) == "splitting" and r_s.random() < 0.3:
        n = prob["shape"][0]
        mask = [bool(r_s.random() < 0.5) for _ in range(n)]          # any partition: the composition formula is defined for every mask
        if all(mask) or not any(mask):
            mask = [False] * (n // 2) + [True] * (n - n // 2)
        system["kick_mask"] = mask
    knobs = {}
    if r_k.random() < 0.6:
        knobs["alloc_cap"] = r_k.choice([1, 2, 3, 5, 8])
    return {"v": 1, "seed": seed, "profile": profile, "problem": prob, "system": system, "knobs": knobs,
            "events": [], "ops": [], "faults": []}, direction


ALL_FAMS = ["explicit_fixed", "explicit_adaptive", "splitting", "implicit_fixed", "implicit_adaptive", "richardson"]
CHEAP_FAMS = ["explicit_fixed", "explicit_fixed", "explicit_adaptive", "explicit_adaptive", "splitting", "implicit_fixed", "richardson"]


# ------------------------------------------------------------------------------------ profiles
def gen_C03(seed):
    r = sub(seed, "ops")
    fams = r.choice([CHEAP_FAMS, CHEAP_FAMS, ALL_FAMS])
    with_events = r.random() < 0.2
    big = r.random() < 0.004            # outgrow the real 5000-row pre-allocation (no knob)
    if big:
        fams = ["explicit_fixed"]
    scn, direction = base_scenario(seed, "C03", fams, family="osc" if with_events else None)
    s = scn["system"]
    if big:
        s["method"] = "EulerSolver"
        scn["knobs"].pop("alloc_cap", None)
        s["dt"] = abs(s["tf"] - s["t0"]) / r.choice([5003, 5600, 10007])
        s["dense"] = False
        scn["budget"] = 400000
    if with_events:
        # non-terminal events: event-triggered buffer growth together with the small buffer cap
        scn["events"] = gen_events(r, scn, r.choice([1, 2, 4]), terminal_prob=0.0)
        if "alloc_cap" not in scn["knobs"]:
            scn["knobs"]["alloc_cap"] = r.choice([1, 2, 3])
    rz_ = sub(seed, "zero_target")
    if not with_events and not big and rz_.random() < 0.05:
        # special times: the very first call heads for t = 0 exactly from a non-zero start (0 is what unused buffer rows hold), or the
        # run starts at t = 0 exactly
        L_ = abs(s["tf"] - s["t0"])
        if rz_.random() < 0.7:
            s["t0"], s["tf"] = round(-direction * L_, 6), 0.0
        else:
            s["t0"], s["tf"] = 0.0, round(direction * L_, 6)
    t0, tf = s["t0"], s["tf"]
    L = abs(tf - t0)
    if r.random() < 0.2:
        s["dt"] = round(L * r.uniform(1.1, 3.0), 4)       # larger than the span: halving path
    nops = r.choice([1, 1, 2, 2, 3, 4])
    ops = []
    cur = t0
    for j in range(nops):
        mode = r.random()
        if j == nops - 1 and mode < 0.5:
            ops.append({"op": "integrate"})
            cur = tf
            continue
        frac = r.uniform(0.1, 1.0)
        tgt = round(cur + direction * frac * L / nops, 6)
        if mode > 0.93:
            tgt = cur                                          # already there: no-op
        elif mode > 0.85 and j > 0:
            tgt = round(cur - direction * r.uniform(0.1, 0.6) * L / nops, 6)     # behind the current time: reversal
        ops.append({"op": "integrate", "t": tgt})
        cur = tgt
    if big:
        ops = [{"op": "integrate"}]
    rt_ = sub(seed, "target_forms")
    if not big and rt_.random() < 0.07:
        # a last call whose target is only some tens .. 1e5 rounding units away from where the system stands (it is the last op: the
        # library keeps the shrunken dt for later calls)
        eps_ = {"float32": 1.2e-7, "float64": 2.3e-16, "longdouble": 1.1e-19}[scn["problem"]["dtype"]]
        off = max(abs(cur), 1.0) * eps_ * 10 ** rt_.uniform(1.7, 5.0)
        ops.append({"op": "integrate", "t": float(np.asarray(cur + direction * off, dtype=scn["problem"]["dtype"]))})
    if not big:
        # the target as a numpy scalar of another precision, a 0-d array or an int instead of a Python float.  The NUMBER stays the same
        # in every form (a float32 target is first made representable in float32), and a later op that repeated the old number
        # (a call made when already at the target) repeats the new one
        prev = t0
        renamed = {}
        for op in ops:
            if op.get("t") is None:
                prev = tf
                continue
            if op["t"] in renamed:
                op["t"] = renamed[op["t"]]
            elif rt_.random() < 0.12:
                ty = rt_.choice(["f64", "f64", "f32", "ld", "arr0", "int"])
                told = op["t"]
                if ty == "int":
                    ti = int(round(told))
                    if (ti - prev) * (told - prev) <= 0 or abs(ti - prev) > 3 * L:
                        ty = "f64"
                    else:
                        op["t"] = ti
                elif ty == "f32":
                    t32 = float(np.float32(told))
                    if (t32 - prev) * (told - prev) <= 0:
                        ty = "f64"
                    else:
                        op["t"] = t32
                renamed[told] = op["t"]
                op["t_type"] = ty
            prev = op["t"]
    if with_events:
        for op in ops:
            op["events"] = list(range(len(scn["events"])))
    scn["ops"] = ops
    if r.random() < 0.15:
        scn["faults"].append({"op": r.randrange(len(ops)), "seam": "alloc", "at": r.choice([1, 1, 2, 3]), "kind": "memerr"})
    return scn


GENERATORS = {"C03": gen_C03}


def gen_scenario(seed, profile):
    return GENERATORS[profile](seed)


def gen_C05(seed):
    r = sub(seed, "ops")
    fams = r.choice([["explicit_adaptive"], ["explicit_adaptive"], ["explicit_adaptive", "richardson"], ["implicit_adaptive", "explicit_adaptive"]])
    scn, direction = base_scenario(seed, "C05", fams, want={"exact"}, dtype=r.choice(["float64"] * 6 + ["float32", "longdouble"]))
    s = scn["system"]
    L = abs(s["tf"] - s["t0"])
    e = r.uniform(-4.0, 0.5)
    s["dt"] = float("%.4g" % (L * 10 ** e))
    if r.random() < 0.15:
        s["dt"] = round(L * r.uniform(1.1, 3.0), 4)
    if r.random() < 0.3:
        s["dt"] = -s["dt"]
    scn["knobs"].pop("alloc_cap", None)
    prob = scn["problem"]
    # tolerance mixes in which rtol*|y| dominates atol, large / small state magnitudes, strongly decaying or growing linear flows
    if s.get("rtol") is not None and r.random() < 0.5:
        s["atol"] = float("%.2e" % (s["rtol"] * r.choice([1e-2, 1e-4, 1e-6, 1e-8])))
    if prob["family"] in ("linear", "osc", "cosdecay") and r.random() < 0.35:
        sc = r.choice([1e3, 1e3, 1e-3, 30.0])
        prob["y0"] = [round(v * sc, 9) for v in prob["y0"]]
    rsc_ = sub(seed, "extreme_scale")
    if prob["family"] in ("linear", "osc", "cosdecay") and s.get("rtol") is not None and prob["dtype"] != "float32" and rsc_.random() < 0.08:
        # the same linear problem in other units: state AND absolute tolerance scaled by 1e-25 .. 1e18 (the computed trajectory scales with
        # them; nothing in the controller may be absolute)
        sc = 10.0 ** rsc_.choice([-25, -18, -18, -12, 12, 18])
        prob["y0"] = [float("%.6g" % (v * sc)) for v in prob["y0"]]
        s["atol"] = float("%.3g" % (s["atol"] * sc))
        if sc < 1 and rsc_.random() < 0.4 and all(abs(v) > 0 for v in prob["y0"]):
            s["atol"] = 0.0            # a purely relative tolerance (given as exactly zero) on a tiny state
        scn["extreme_scale"] = sc
    if prob["family"] == "linear" and r.random() < 0.5:
        n_ = int(round(len(prob["params"]["A"]) ** 0.5))
        shift = r.choice([-3.0, -2.0, -1.0, 1.0]) * direction
        A = list(prob["params"]["A"])
        for d_ in range(n_):
            A[d_ * n_ + d_] = round(A[d_ * n_ + d_] + shift, 6)
        prob["params"]["A"] = A
    long_decay = False
    if method_family(s["method"]) == "explicit_adaptive" and prob["dtype"] != "float32" and r.random() < 0.18:
        # long contraction: the solution shrinks by e^-8 .. e^-16 over the span in a few dozen (large) steps, rtol*|y| dominates atol to the
        # very end: the tolerance scale has to follow the solution down step by step
        long_decay = True
        n_ = r.choice([1, 1, 2, 3])
        lam = r.uniform(8.0, 16.0) / L
        M = [[r.uniform(-1.0, 1.0) * lam for _ in range(n_)] for _ in range(n_)]
        A = [[(M[i][j] - M[j][i]) * 0.5 - (lam if i == j else 0.0) for j in range(n_)] for i in range(n_)]
        prob.clear()
        prob.update({"family": "linear", "dtype": r.choice(["float64", "float64", "float64", "longdouble"]), "shape": [n_],
                     "params": {"A": [round(direction * A[i][j], 6) for i in range(n_) for j in range(n_)]},
                     "y0": [round(r.choice([-1, 1]) * r.uniform(0.5, 2.0), 4) for _ in range(n_)]})
        s["method"] = r.choice(["RK8713MSolver", "RK8713MSolver", "RK108Solver", "RK108Solver", "RK1412Solver", "RK45CKSolver", "DOPRI45"])
        s["rtol"] = float("%.2e" % (10 ** r.uniform(-8.0, -3.5)))
        s["atol"] = float("%.2e" % (s["rtol"] * 1e-10))
        s["dt"] = float("%.4g" % (L * r.choice([1e-4, 1e-3, 1e-2, 2.0]))) * r.choice([1, 1, -1])
    ro_ = sub(seed, "overflow")
    overflow_try = False
    if not long_decay and method_family(s["method"]) == "explicit_adaptive" and ro_.random() < 0.05:
        # a first step far beyond anything the pair can take on a super-linear problem: the stages overflow, the error estimate is inf/nan;
        # the only acceptable outcomes are a (much) smaller retried step or an error
        overflow_try = True
        scn["overflow_try"] = True
        s["method"] = ro_.choice(["RK1412Solver", "RK8713MSolver", "RK108Solver", "DOPRI45", "RK45CKSolver"])
        span = {"RK1412Solver": 6.0, "RK8713MSolver": 250.0, "RK108Solver": 250.0, "DOPRI45": 300.0, "RK45CKSolver": 2e4}[s["method"]] * ro_.uniform(1.0, 3.0)
        n_ = ro_.choice([1, 2])
        prob.clear()
        prob.update({"family": "logistic", "dtype": "float64", "shape": [n_], "params": {"r": [round(direction * ro_.uniform(0.5, 2.0), 3) for _ in range(n_)]},
                     "y0": [round(ro_.uniform(0.1, 0.9), 3) for _ in range(n_)]})
        s["t0"] = 0.0
        s["tf"] = round(direction * span, 3)
        L = span
        s["dt"] = round(span * ro_.uniform(1.0, 3.0), 3) * ro_.choice([1, -1])
        s["rtol"] = s["atol"] = float("%.2e" % (10 ** ro_.uniform(-9.0, -5.0)))
    ops = [{"op": "integrate"}]
    if r.random() < 0.25:
        mid = round(s["t0"] + direction * L * r.uniform(0.2, 0.8), 6)
        ops = [{"op": "integrate", "t": mid}, {"op": "integrate"}]
    rt_ = sub(seed, "tolset")
    if s.get("rtol") is not None and rt_.random() < (0.5 if s["method"].startswith("Rich:") else 0.15):
        # the tolerances in force are set through the rtol / atol properties AFTER construction (with the method installed): the system is
        # built with loose ones and tightened - what counts are the tolerances the system reports when it integrates
        tight_r, tight_a = s["rtol"], s["atol"]
        s["rtol"] = float("%.2e" % min(1e-2, tight_r * 10 ** rt_.uniform(2.0, 4.0)))
        s["atol"] = float("%.2e" % min(1e-2, tight_a * 10 ** rt_.uniform(2.0, 4.0)))
        ops = [{"op": "set", "attr": "rtol", "value": tight_r}, {"op": "set", "attr": "atol", "value": tight_a}] + ops
    scn["ops"] = ops
    if r.random() < 0.5 and not long_decay and not overflow_try:
        # fault-injecting configuration: transient spikes force rejections
        rf = sub(seed, "faults")
        stages = {"RK1412Solver": 35, "RK108Solver": 17, "RK8713MSolver": 13, "RK45CKSolver": 6, "HeunEulerSolver": 2, "DOPRI45": 7}.get(s["method"], 8)
        nf = rf.choice([1, 1, 1, 2, 3])
        persistent = rf.random() < 0.3
        opi = rf.choice([i_ for i_, o_ in enumerate(ops) if o_["op"] == "integrate"])
        k0 = rf.randrange(1, 12 * stages)
        if persistent:
            scn["knobs"]["retry_cap"] = rf.choice([2, 3, 5])
            for j in range(0, stages * (scn["knobs"]["retry_cap"] + 2)):
                scn["faults"].append({"op": opi, "seam": "rhs", "at": k0 + j, "kind": "spike", "amp": 1e3})
        else:
            for j in range(nf):
                scn["faults"].append({"op": opi, "seam": "rhs", "at": k0 + j * rf.randrange(1, 3 * stages), "kind": "spike", "amp": rf.choice([1e1, 1e3, 1e6])})
        seen = set()
        scn["faults"] = [f for f in scn["faults"] if not (f["at"] in seen or seen.add(f["at"]))]
    return scn


GENERATORS["C05"] = gen_C05


# ------------------------------------------------------------------------------------ events
def osc_amplitude(prob, j):
    m = len(prob["params"]["w"])
    q, p = prob["y0"][j % m], prob["y0"][m + (j % m)]
    return math.hypot(q, p)


def gen_events(rng, scn, n, terminal_prob=0.0, scales=(1.0,), kinds=("state", "time", "dstate")):
    """event descriptions with (mostly) guaranteed crossings inside the span."""
    prob = scn["problem"]
    s = scn["system"]
    t0, tf = s["t0"], s["tf"]
    N = 1
    for d in prob["shape"]:
        N *= d
    evs = []
    for _ in range(n):
        kind = rng.choice(kinds)
        comp = rng.randrange(N)
        if kind == "time":
            c = round(t0 + (tf - t0) * rng.uniform(0.08, 0.92), 5)
        elif kind == "state":
            if prob["family"] == "osc":
                c = round(osc_amplitude(prob, comp) * rng.uniform(-0.85, 0.85), 4)
            else:
                c = round(prob["y0"][comp] + rng.uniform(-0.2, 0.2), 4)
        else:
            if prob["family"] == "osc":
                m = len(prob["params"]["w"])
                c = round(osc_amplitude(prob, comp) * prob["params"]["w"][comp % m] * s["constants"].get("k", 1.0) * rng.uniform(-0.8, 0.8), 4)
            else:
                c = round(rng.uniform(-0.3, 0.3), 4)
        evs.append({"kind": kind, "comp": comp, "c": c, "scale": rng.choice(list(scales)), "direction": rng.choice([0, 0, 1, -1]),
                    "terminal": bool(rng.random() < terminal_prob)})
    return evs


def gen_C20(seed):
    r = sub(seed, "ops")
    fams = r.choice([ALL_FAMS, CHEAP_FAMS, ["explicit_adaptive", "implicit_fixed", "implicit_adaptive"], ["splitting", "richardson", "explicit_fixed"]])
    with_events = r.random() < 0.4
    scn, direction = base_scenario(seed, "C20", fams, family="osc" if with_events and r.random() < 0.7 else None, max_steps=25)
    s = scn["system"]
    t0, tf = s["t0"], s["tf"]
    L = abs(tf - t0)
    if with_events:
        scn["events"] = gen_events(r, scn, r.choice([1, 1, 2, 3]), terminal_prob=0.3)
    nops = r.choice([1, 2, 2, 3, 4])
    ops = []
    cur = t0
    for j in range(nops):
        x = r.random()
        if x < 0.12 and j > 0:
            ops.append({"op": "reset"})
            cur = t0
            continue
        if x < 0.2 and j > 0:
            ops.append({"op": "set", "attr": r.choice(["rtol", "atol"]), "value": float("%.2e" % 10 ** r.uniform(-7, -3))})
            continue
        op = {"op": "integrate"}
        if j > 0 and r.random() < 0.12 and abs(cur - t0) > 0.2 * L:
            op["t"] = round(cur - (cur - t0) * r.uniform(0.2, 0.8), 6)          # against the system's span: a reversal
            cur = op["t"]
        elif r.random() < 0.6 and abs(tf - cur) > 0.05 * L:
            op["t"] = round(cur + (tf - cur) * r.uniform(0.2, 0.9), 6)
            cur = op["t"]
        else:
            cur = tf
        cbs = r.choice([[], ["probe"], ["plan"], ["probe", "plan"], ["plan", "probe"], ["probe", "probe2"]])
        if cbs:
            op["callbacks"] = cbs
        if "plan" in cbs:
            base = abs(s["dt"])
            op["plan"] = [(None if r.random() < 0.3 else float("%.4g" % (base * r.uniform(0.3, 1.5)))) for _ in range(r.choice([1, 2, 4, 8]))]
        if with_events and r.random() < 0.8:
            op["events"] = sorted(r.sample(range(len(scn["events"])), r.randint(1, len(scn["events"]))))
        ops.append(op)
    if not any(o["op"] == "integrate" for o in ops):
        ops.append({"op": "integrate"})
    scn["ops"] = ops
    rfs_ = sub(seed, "foreign_system")
    if rfs_.random() < 0.1 and not gen_is_slow(s["method"]):
        # somewhere in the history a second system is built from the same right-hand side object, run for a while and perhaps reset
        ops.insert(rfs_.randrange(0, len(ops) + 1), {"op": "foreign_system", "frac": round(rfs_.uniform(0.1, 0.5), 3), "reset_other": bool(rfs_.random() < 0.5)})
    rw = sub(seed, "prewrap")
    if rw.random() < 0.15 and s.get("jac", "none") != "attr":
        # the right-hand side reaches the system already wrapped (DiffRHS / rhs_prettifier) and already used
        s["prewrapped"] = {"rhs_calls": rw.choice([1, 2, 3, 7]), "jac_calls": rw.choice([0, 0, 1, 2])}
    # faults: at most a few, inside ops that do work
    rf = sub(seed, "faults")
    iops = [i for i, o in enumerate(ops) if o["op"] == "integrate"]
    if rf.random() < 0.5:
        for _ in range(rf.choice([1, 1, 1, 2])):
            i = rf.choice(iops)
            kind = rf.choice(["rhs_raise", "rhs_raise", "rhs_kbdint", "rhs_spike", "callback", "event", "solver_nonconv", "jac"])
            if kind.startswith("rhs"):
                scn["faults"].append({"op": i, "seam": "rhs", "at": rf.randrange(1, 120), "kind": kind.split("_")[1]})
            elif kind == "callback" and ops[i].get("callbacks"):
                scn["faults"].append({"op": i, "seam": "callback", "at": rf.randrange(1, 12), "kind": "raise"})
            elif kind == "event" and ops[i].get("events"):
                scn["faults"].append({"op": i, "seam": "event", "at": rf.randrange(1, 150), "kind": "raise"})
            elif kind == "solver_nonconv" and is_implicit(s["method"]):
                scn["faults"].append({"op": i, "seam": "solver", "at": rf.randrange(1, 12), "kind": "nonconv"})
            elif kind == "jac" and s["jac"] != "none":
                scn["faults"].append({"op": i, "seam": "jac", "at": rf.randrange(1, 4), "kind": "raise"})
    return scn


GENERATORS["C20"] = gen_C20


def gen_C02_base(seed):
    """base scenario for C02: implicit methods (solver faults are enumerated on top of it) or explicit/splitting methods (step formula)."""
    r = sub(seed, "ops")
    x = r.random()
    if x < 0.55:
        fams = ["implicit_fixed", "implicit_fixed", "implicit_adaptive"]
    else:
        fams = ["explicit_fixed", "explicit_adaptive", "splitting"]
    dtype = r.choice(["float64"] * 5 + ["longdouble", "longdouble", "float32"])
    scn, direction = base_scenario(seed, "C02", fams, dtype=dtype, max_steps=10)
    s = scn["system"]
    s["dense"] = False
    L = abs(s["tf"] - s["t0"])
    if scn["problem"]["family"] in ("linear",) and is_implicit(s["method"]) and r.random() < 0.3:
        pass
    rdm_ = sub(seed, "decaymix")
    if is_implicit(s["method"]) and dtype != "float32" and rdm_.random() < 0.15:
        # the magnitude of the state collapses by many orders while a bounded nonlinear part keeps the Newton iteration busy: whatever
        # tolerance the stage equations are solved to has to follow the state down (rtol-dominated tolerances)
        lam = rdm_.uniform(9.0, 14.0) / L
        scn["problem"] = {"family": "decaymix", "dtype": dtype, "shape": [3], "params": {"lam": float("%.4g" % (direction * lam)), "b": rdm_.choice([0.5, 2.0, 8.0])},
                          "y0": [float("%.3g" % (10.0 ** rdm_.uniform(3, 5))), rdm_.choice([1.0, 1.5, -1.2]), rdm_.choice([0.0, 0.8])]}
        scn["budget"] = 40000
        s["rtol"] = float("%.2e" % 10 ** rdm_.uniform(-7, -4))
        s["atol"] = float("%.2e" % (s["rtol"] * 1e-3))
        s["dt"] = float("%.4g" % (L / rdm_.choice([40, 80])))
        s["jac"] = rdm_.choice(["none", "attr"])
    scn["ops"] = [{"op": "integrate"}]
    if r.random() < 0.3:
        mid = round(s["t0"] + direction * L * r.uniform(0.2, 0.8), 6)
        scn["ops"] = [{"op": "integrate", "t": mid}, {"op": "integrate"}]
        rk_ = sub(seed, "switch_constants")
        if rk_.random() < 0.5:
            # the right-hand side changes between two calls (system.constants assigned) exactly where the first call ended: every slope
            # of the next step has to be the slope of the NEW right-hand side
            k_old = s["constants"].get("k", 1.0)
            scn["ops"].insert(1, {"op": "set", "attr": "constants", "value": dict(s["constants"], k=float("%.4g" % (k_old * rk_.uniform(1.5, 3.0))))})
    if is_implicit(s["method"]) and r.random() < 0.5:
        # one Newton iteration per solve never converges on the extended-precision path: the step shrinks for thousands of steps
        scn["knobs"]["newton_cap"] = r.choice([2, 4]) if dtype == "longdouble" else r.choice([1, 2, 4])
    if is_implicit(s["method"]) and r.random() < 0.3:
        scn["knobs"]["retry_cap"] = r.choice([2, 3, 5])
    return scn


GENERATORS["C02"] = gen_C02_base


def gen_C06(seed):
    r = sub(seed, "ops")
    fams = r.choice([ALL_FAMS, CHEAP_FAMS, CHEAP_FAMS])
    with_events = r.random() < 0.35
    scn, direction = base_scenario(seed, "C06", fams, dense=True, family="osc" if with_events else None, max_steps=25,
                                   want={"exact"} if r.random() < 0.5 else None)
    s = scn["system"]
    t0, tf = s["t0"], s["tf"]
    L = abs(tf - t0)
    if with_events:
        scn["events"] = gen_events(r, scn, r.choice([1, 2, 3]), terminal_prob=0.5)
    nops = r.choice([1, 2, 2, 3])
    ops = []
    cur = t0
    for j in range(nops):
        op = {"op": "integrate"}
        if j < nops - 1:
            op["t"] = round(cur + (tf - cur) * r.uniform(0.2, 0.8), 6)
            cur = op["t"]
        if with_events and (r.random() < 0.8):
            pool = list(range(len(scn["events"])))
            if j > 0 and sub(seed, "cont%d" % j).random() < 0.5:
                # half of the continuations monitor the non-terminal events only, the other half everything again (a terminal event
                # that stopped the previous call must not stop the next one on the spot: D31)
                pool = [e_ for e_ in pool if not scn["events"][e_]["terminal"]]
            if pool:
                op["events"] = sorted(r.sample(pool, r.randint(1, len(pool))))
        ops.append(op)
    scn["ops"] = ops
    rf = sub(seed, "faults")
    if rf.random() < 0.3:
        i = rf.randrange(len(ops))
        seam = rf.choice(["rhs", "rhs", "event"]) if ops[i].get("events") else "rhs"
        scn["faults"].append({"op": i, "seam": seam, "at": rf.randrange(1, 150), "kind": rf.choice(["raise", "raise", "kbdint"])})
        ops.append({"op": "integrate"})
    rk_ = sub(seed, "switch_constants")
    if not scn["faults"] and not with_events and len(ops) >= 2 and not scn["problem"].get("want_exact") and rk_.random() < 0.25:
        # new constants between two calls: the first piece of the next call starts with the slope of the NEW right-hand side
        k_old = s["constants"].get("k", 1.0)
        ops.insert(1, {"op": "set", "attr": "constants", "value": dict(s["constants"], k=float("%.4g" % (k_old * rk_.uniform(1.5, 3.0))))})
        scn["switch_constants"] = True
    return scn


GENERATORS["C06"] = gen_C06


def gen_C19(seed):
    r = sub(seed, "ops")
    fams = r.choice([CHEAP_FAMS, CHEAP_FAMS, ALL_FAMS])
    scn, direction = base_scenario(seed, "C19", fams, max_steps=16)
    s = scn["system"]
    t0, tf = s["t0"], s["tf"]
    nops = r.choice([1, 1, 2, 3])
    ops = []
    cur = t0
    against = r.random() < 0.15          # the whole run heads against the declared (t0, tf) span (still monotone)
    for j in range(nops):
        op = {"op": "integrate"}
        if against:
            op["t"] = round(cur - (tf - t0) * r.uniform(0.2, 0.6), 6)
            cur = op["t"]
        elif j < nops - 1:
            op["t"] = round(cur + (tf - cur) * r.uniform(0.2, 0.8), 6)
            cur = op["t"]
        ops.append(op)
    scn["ops"] = ops
    re_ = sub(seed, "events")
    if re_.random() < 0.3:
        # monitored (non-terminal) events: the system keeps step interpolants for root finding even when dense output is off
        scn["events"] = gen_events(re_, scn, re_.choice([1, 2]), terminal_prob=0.0, kinds=("state", "time"))
        for op in ops:
            if re_.random() < 0.8:
                op["events"] = list(range(len(scn["events"])))
    rf = sub(seed, "faults")
    if rf.random() < 0.2:
        i = rf.randrange(len(ops))
        scn["faults"].append({"op": i, "seam": "rhs", "at": rf.randrange(1, 100), "kind": "raise"})
        ops.append(dict(ops[-1]) if against else {"op": "integrate"})
    return scn


GENERATORS["C19"] = gen_C19


def gen_C12(seed):
    r = sub(seed, "ops")
    fams = r.choice([ALL_FAMS, ALL_FAMS, CHEAP_FAMS, ["implicit_fixed", "implicit_adaptive"], ["explicit_adaptive", "richardson"]])
    with_events = r.random() < 0.4
    scn, direction = base_scenario(seed, "C12", fams, family="osc" if with_events and r.random() < 0.8 else None, max_steps=10,
                                   length=rnd(r, 0.4, 1.6, 3))
    s = scn["system"]
    if gen_is_slow(s["method"]):
        s["rtol"], s["atol"] = 1e-3, 1e-5
    t0, tf = s["t0"], s["tf"]
    if with_events:
        scn["events"] = gen_events(r, scn, r.choice([1, 1, 2, 3]), terminal_prob=0.35)
    ops = []
    first = {"op": "integrate"}
    two = r.random() < 0.35
    if two:
        first["t"] = round(t0 + (tf - t0) * r.uniform(0.3, 0.7), 6)
    cbs = r.choice([[], [], ["probe"], ["plan"], ["probe", "plan"]])
    if cbs:
        first["callbacks"] = cbs
        if "plan" in cbs:
            first["plan"] = [(None if r.random() < 0.4 else float("%.4g" % (abs(s["dt"]) * r.uniform(0.4, 1.2)))) for _ in range(r.choice([1, 2, 4]))]
    if with_events:
        first["events"] = sorted(r.sample(range(len(scn["events"])), r.randint(1, len(scn["events"]))))
    ops.append(first)
    if two:
        second = {"op": "integrate"}
        if with_events and r.random() < 0.7:
            second["events"] = first["events"]
        if cbs and r.random() < 0.5:
            second["callbacks"] = ["probe"]
        ops.append(second)
    resume = {"op": "integrate"}          # resume (a no-op in the fault-free twin unless that stopped at a terminal event)
    if with_events and sub(seed, "resume_events").random() < 0.5:
        resume["events"] = first["events"]     # the resumed call watches the same event functions (it may start on a crossing already reported)
    ops.append(resume)
    ops.append({"op": "reset"})
    last = {"op": "integrate"}
    if with_events and r.random() < 0.5:
        last["events"] = first["events"]
    ops.append(last)
    scn["ops"] = ops
    scn["fault_ops_upto"] = 1 if two else 0
    return scn


def gen_is_slow(method):
    return method in ("RadauIIA5", "RadauIIA19", "LobattoIIIC4") or method.startswith("Rich:")


GENERATORS["C12"] = gen_C12


def gen_C13(seed):
    r = sub(seed, "ops")
    fams = r.choice([ALL_FAMS, CHEAP_FAMS, CHEAP_FAMS, ["implicit_fixed", "splitting", "explicit_adaptive"]])
    with_events = r.random() < 0.35
    scn, direction = base_scenario(seed, "C13", fams, family="osc" if with_events and r.random() < 0.8 else None, max_steps=12,
                                   length=rnd(r, 0.5, 2.0, 3))
    s = scn["system"]
    if gen_is_slow(s["method"]):
        s["rtol"], s["atol"] = 1e-3, 1e-5
    if s["rtol"] is None:
        # a later "set method" may select an adaptive/Richardson method; Richardson wrappers cannot be constructed without tolerances
        s["rtol"], s["atol"] = 1e-4, 1e-6
    t0, tf = s["t0"], s["tf"]
    L = abs(tf - t0)
    if with_events:
        scn["events"] = gen_events(r, scn, r.choice([1, 2, 3]), terminal_prob=0.3)
    sep = scn["problem"]["family"] in ("osc", "duffing", "pendulum", "tdosc")
    rb = sub(seed, "blowup")
    if rb.random() < 0.06:
        # "whatever happened before": a fixed-step run driven across a finite-time singularity (it completes, with non-finite states),
        # then reset(), then the same run again on the reset and on a freshly constructed system
        fam_ = rb.choice(["splitting", "splitting", "explicit_fixed"])
        s["method"] = pick_method(rb, [fam_])
        m_ = 1
        scn["problem"] = {"family": "duffing", "dtype": rb.choice(["float64", "float64", "float32"]), "shape": [2 * m_],
                          "params": {"a": [1.0], "b": [-round(rb.uniform(0.5, 2.0), 3)]}, "y0": [round(rb.uniform(2.0, 4.0), 3), round(rb.uniform(1.0, 3.0), 3)]}
        s["t0"], s["tf"] = 0.0, round(direction * rb.uniform(1.5, 3.0), 3)
        if direction < 0:
            scn["problem"]["y0"][1] = -scn["problem"]["y0"][1]
        s["dt"] = round(direction * rb.uniform(0.02, 0.1), 4)
        s.pop("kick_mask", None)
        scn["events"] = []
        scn["ops"] = [{"op": "integrate"}, {"op": "reset"}, {"op": "integrate"}]
        if rb.random() < 0.4:
            scn["ops"].insert(2, {"op": "set", "attr": "tf", "value": round(direction * rb.uniform(0.1, 0.2), 4)})
        scn["knobs"].pop("alloc_cap", None)
        scn["blowup"] = True
        return scn
    rsl_ = sub(seed, "shortleg")
    if with_events and rsl_.random() < 0.25:
        # a short monitored first leg (it ends inside the first step or two of the rerun), reset(), the monitored run again: whatever the
        # event machinery kept from the first leg (interpolants, duplicate memory) must be gone
        s["dense"] = bool(rsl_.random() < 0.3)
        allev = list(range(len(scn["events"])))
        leg = round(t0 + direction * min(L * rsl_.uniform(0.01, 0.1), abs(s["dt"]) * rsl_.uniform(0.2, 1.5)), 6)
        scn["ops"] = [{"op": "integrate", "t": leg, "events": allev}, {"op": "reset"}, {"op": "integrate", "events": allev}]
        return scn
    if r.random() < 0.25:
        # pure split-vs-whole history
        on_grid = r.random() < 0.6
        n = r.choice([2, 3, 4])
        dtm = abs(s["dt"])
        ops = []
        for j in range(1, n):
            if on_grid:
                ksteps = max(1, int((L / dtm) * j / n))
                tgt = t0 + direction * ksteps * dtm
            else:
                tgt = round(t0 + direction * L * j / n * r.uniform(0.8, 1.0), 6)
            if ops and ops[-1]["t"] == tgt:
                continue
            ops.append({"op": "integrate", "t": tgt})
        ops.append({"op": "integrate"})
        scn["ops"] = ops
        scn["split_check"] = True
        scn["on_grid"] = bool(on_grid and s["dt"] == dtm * (1 if s["dt"] > 0 else -1) and float(abs(s["dt"])) == 2.0 ** round(math.log2(abs(s["dt"]))))
        scn["knobs"].pop("alloc_cap", None) if r.random() < 0.5 else None
        return scn
    nops = r.randint(2, 9)
    ops = []
    cur = t0
    cur_tf = tf
    have_reset = False
    for j in range(nops):
        x = r.random()
        if x < 0.16 and j > 0:
            ops.append({"op": "reset"})
            cur = t0
            have_reset = True
        elif x < 0.22:
            ops.append({"op": "set", "attr": "dt", "value": float("%.4g" % (abs(s["dt"]) * r.uniform(0.4, 1.6) * r.choice([1, -1])))})
        elif x < 0.30:
            ops.append({"op": "set", "attr": r.choice(["rtol", "atol"]), "value": float("%.2e" % 10 ** r.uniform(-6, -3))})
        elif x < 0.37:
            m = pick_method(r, CHEAP_FAMS if not sep else CHEAP_FAMS + ["splitting"])
            if method_family(m) == "splitting" and not sep:
                m = "RK4Solver"
            ops.append({"op": "set", "attr": "method", "value": m})
        elif x < 0.41:
            newtf = round(cur_tf + direction * L * r.uniform(0.1, 0.5), 6)
            ops.append({"op": "set", "attr": "tf", "value": newtf})
            cur_tf = newtf
        elif x < 0.45 and sep:
            n = scn["problem"]["shape"][0]
            mask = [bool(r.random() < 0.5) for _ in range(n)]
            if not any(mask):
                mask[-1] = True
            ops.append({"op": "set", "attr": "kick", "value": mask})
        else:
            op = {"op": "integrate"}
            y = r.random()
            if y < 0.12 and j > 0:
                op["t"] = cur
                op["noop"] = True
            elif y < 0.6 and abs(cur_tf - cur) > 0.05 * L:
                op["t"] = round(cur + (cur_tf - cur) * r.uniform(0.2, 0.9), 6)
                cur = op["t"]
            else:
                cur = cur_tf
            if with_events and r.random() < 0.6:
                op["events"] = sorted(r.sample(range(len(scn["events"])), r.randint(1, len(scn["events"]))))
            if r.random() < 0.25:
                op["callbacks"] = r.choice([["probe"], ["plan"]])
                if "plan" in op["callbacks"]:
                    op["plan"] = [float("%.4g" % (abs(s["dt"]) * r.uniform(0.4, 1.2))) for _ in range(r.choice([1, 2, 3]))]
            ops.append(op)
    rdc_ = sub(seed, "del_constants")
    if rdc_.random() < 0.1 and len(ops) >= 2:
        # the constants are dropped (del system.constants) or replaced somewhere in the history: the caller's own dict must survive
        ops.insert(rdc_.randrange(1, len(ops)), {"op": "del_constants"} if rdc_.random() < 0.6 else
                   {"op": "set", "attr": "constants", "value": {"k": rdc_.choice([1.0, 1.25, 0.75])}})
    if not have_reset:
        ops.append({"op": "reset"})
        ops.append({"op": "integrate"})
    elif ops[-1]["op"] == "reset":
        ops.append({"op": "integrate"})
    # noop flag is only right if the previous op left the system exactly at `cur`: recompute conservatively
    for i, op in enumerate(ops):
        if op.get("noop"):
            prev = ops[i - 1]
            if not (prev["op"] == "integrate" and prev.get("t") == op["t"] and not prev.get("events")):
                op.pop("noop")
    scn["ops"] = ops
    rf = sub(seed, "faults")
    iops = [i for i, o in enumerate(ops) if o["op"] == "integrate" and not o.get("noop")]
    if rf.random() < 0.4 and iops:
        for _ in range(rf.choice([1, 1, 2])):
            i = rf.choice(iops)
            seam = rf.choice(["rhs", "rhs", "event", "callback"])
            if seam == "event" and not ops[i].get("events"):
                seam = "rhs"
            if seam == "callback" and not ops[i].get("callbacks"):
                seam = "rhs"
            scn["faults"].append({"op": i, "seam": seam, "at": rf.randrange(1, 80 if seam != "callback" else 6), "kind": rf.choice(["raise", "raise", "kbdint"])})
    rn_ = sub(seed, "nanfault")
    if not scn["faults"] and iops and is_adaptive(s["method"]) and rn_.random() < 0.12:
        # the model leaves its domain for a while (non-finite slopes): the call fails; the same call is then made again on the healed model
        i = rn_.choice(iops)
        k0 = rn_.randrange(1, 60)
        scn["faults"] = [{"op": i, "seam": "rhs", "at": k0 + j, "kind": "spike", "amp": "nan"} for j in range(rn_.choice([40, 400, 3000]))]
        ops.insert(i + 1, copy.deepcopy(ops[i]))
        ops[i + 1].pop("noop", None)
        scn["nan_then_repeat"] = i
    fault_ops = set(f["op"] for f in scn["faults"])
    for i, op in enumerate(ops):
        if op.get("noop") and (i - 1) in fault_ops:
            op.pop("noop")          # the previous call may not have reached its target
    return scn


GENERATORS["C13"] = gen_C13


# ------------------------------------------------------------------------------------ event profiles
def _osc_roots(prob, k, t0, comp, c, kind, lo, hi):
    m = len(prob["params"]["w"])
    j = comp % m
    w = prob["params"]["w"][j] * k
    q0, p0 = prob["y0"][j], prob["y0"][m + j]
    a, b = (q0, p0) if comp < m else (p0, -q0)
    R, phi = math.hypot(a, b), math.atan2(b, a)
    if kind == "dstate":
        R, phi = R * abs(w), phi - math.pi / 2
    if abs(c) >= R:
        return []
    th = math.acos(c / R)
    out = []
    period = 2 * math.pi / abs(w)
    for sg in (1.0, -1.0):
        base = (phi + sg * th) / w
        n0 = math.floor((lo - t0 - base) / period) - 1
        for n in range(int(n0), int(n0) + int((hi - lo) / period) + 4):
            tr = t0 + base + n * period
            if lo < tr < hi:
                out.append(tr)
    return sorted(out)


def gen_EV(seed, profile):
    r = sub(seed, "ops")
    fams = r.choice([["explicit_fixed"], ["explicit_fixed", "splitting"], ["explicit_adaptive"], ALL_FAMS, CHEAP_FAMS])
    dtype = r.choice(["float64"] * 9 + ["float32", "longdouble"]) if profile == "C08" else "float64"
    rfar_ = sub(seed, "far_axis")
    far = profile == "C08" and rfar_.random() < 0.06
    if far:
        # a time axis far from zero on which the SAME function crosses again and again, a few hundred to a few thousand time-resolution
        # units apart (everything the library compares with a time - duplicate windows, probe offsets, root tolerances - meets |t| >> 1)
        fams = ["explicit_fixed"] if rfar_.random() < 0.7 else ["explicit_adaptive"]
        dtype = "float32" if rfar_.random() < 0.35 else "float64"
    scn, direction = base_scenario(seed, profile, fams, family="osc", dtype=dtype, max_steps=16, length=rnd(r, 1.0, 3.5, 3))
    s = scn["system"]
    if far:
        eps_ = 1.2e-7 if dtype == "float32" else 2.3e-16
        mag = float(round(10 ** (rfar_.uniform(2.5, 3.5) if dtype == "float32" else rfar_.uniform(6.0, 9.0))))
        gap = mag * (4 * eps_) ** 0.7 * rfar_.uniform(0.25, 0.9)          # time between two crossings of one function
        s["t0"] = rfar_.choice([-1.0, 1.0]) * mag
        s["tf"] = s["t0"] + direction * float("%.4g" % (gap * rfar_.uniform(4.0, 10.0)))
        s["dt"] = float("%.4g" % (gap / rfar_.uniform(3.0, 6.0)))
        kk_ = s["constants"].get("k", 1.0)
        scn["problem"]["params"]["w"] = [float("%.5g" % (math.pi / gap / kk_ * rfar_.uniform(0.8, 1.2))) for _ in scn["problem"]["params"]["w"]]
        scn["far_axis"] = True
    if gen_is_slow(s["method"]):
        s["rtol"], s["atol"] = 1e-4, 1e-6
    t0, tf = s["t0"], s["tf"]
    L = abs(tf - t0)
    k = s["constants"]["k"]
    prob = scn["problem"]
    nev = r.choice([1, 1, 2, 2, 3, 4, 6]) if profile == "C08" else r.choice([1, 2, 2, 3])
    if profile == "C08":
        scales = [10.0 ** r.randint(-6, 6) for _ in range(nev)]
    elif profile == "C07":
        scales = [r.choice([1.0, 1.0, 1e-3, 1e3, 1e-6, 1e6]) for _ in range(nev)]
        rsc_ = sub(seed, "tinyscale")
        if rsc_.random() < 0.12:
            # event values far below the root finder's absolute residual threshold (4 eps) everywhere: only the sign-change bracket can
            # locate the crossing
            scales[rsc_.randrange(nev)] = rsc_.choice([1e-12, 1e-15, 1e-15])
    else:
        scales = [r.choice([1.0, 1.0, 1.0, 1e-2, 1e2]) for _ in range(nev)]
    tp = {"C07": 0.0, "C08": 0.0, "C09": 0.45}[profile]
    evs = gen_events(r, scn, nev, terminal_prob=tp, kinds=("state", "state", "time", "dstate"))
    for e, sc in zip(evs, scales):
        e["scale"] = sc
    if profile == "C09" and not any(e["terminal"] for e in evs):
        evs[r.randrange(len(evs))]["terminal"] = True
    rt_ = sub(seed, "terminal")
    if profile == "C09" and rt_.random() < 0.2:
        # the surface of a terminal event is also watched by a non-terminal function that is listed BEFORE it: the two crossings coincide
        # in time, the non-terminal one is handled first, and the terminal one still has to be reported and to stop the run
        jt_ = [j for j, e in enumerate(evs) if e["terminal"]][0]
        twin_ = dict(evs[jt_])
        twin_["terminal"] = False
        twin_["direction"] = 0
        twin_["scale"] = rt_.choice([1.0, 1.0, 3.0])
        evs.insert(jt_, twin_)
        nev = len(evs)
    if profile == "C08" and len(evs) >= 2 and rt_.random() < 0.2:
        # one terminal event that is NOT the last entry of the list: the step that is cut at its root still has to report the
        # crossings of the functions listed after it
        evs[rt_.randrange(len(evs) - 1)]["terminal"] = True
    if profile in ("C07", "C08") and r.random() < 0.25:
        # the same level set watched by a second event function at another scale: coincident crossings of different functions
        src = dict(r.choice(evs))
        src["scale"] = 10.0 ** r.randint(-4, 4) if profile == "C08" else r.choice([1.0, 1e-3, 1e3])
        src["terminal"] = False
        evs.append(src)
        nev = len(evs)
    if profile == "C07" and r.random() < 0.35:
        # periodic pure-time event: several exactly known roots of ONE function
        evs.append({"kind": "tsin", "comp": 0, "c": 0.0, "c0": round(t0 + (tf - t0) * r.uniform(0.02, 0.2), 4), "w": round(math.pi / (L * r.uniform(0.15, 0.4)), 4),
                    "scale": r.choice([1.0, 1.0, 10.0, 0.1]), "direction": r.choice([0, 0, 1, -1]), "terminal": False})
        nev = len(evs)
    scn["events"] = evs
    lo, hi = min(t0, tf), max(t0, tf)
    roots = []
    for e in evs:
        if e["kind"] == "time":
            roots.append((e["c"], "time"))
        elif e["kind"] == "tsin":
            n0 = math.floor((lo - e["c0"]) * e["w"] / math.pi) - 1
            for n in range(int(n0), int(n0) + int((hi - lo) * e["w"] / math.pi) + 4):
                tr = e["c0"] + n * math.pi / e["w"]
                if lo < tr < hi:
                    roots.append((tr, "tsin"))
        else:
            for tr in _osc_roots(prob, k, t0, e["comp"], e["c"], e["kind"], lo, hi):
                roots.append((tr, e["kind"]))
    use_plan = method_family(s["method"]) in ("explicit_fixed", "splitting") and r.random() < 0.7 and dtype == "float64"
    op = {"op": "integrate", "events": list(range(nev))}
    if use_plan:
        # step grid scheduled through the callback seam: boundaries on / next to roots, several roots in one step
        base_dt = abs(s["dt"])
        pts = set()
        x = t0
        while (tf - x) * direction > 1e-9:
            pts.add(round(x, 12))
            x = x + direction * base_dt * r.choice([1.0, 1.0, 0.5, 2.0, 3.0])
        for (tr, kind) in roots:
            mode = r.random()
            if mode < 0.35:
                pts.add(tr)                               # boundary on the (exact) root
            elif mode < 0.5:
                pts.add(float.fromhex((tr).hex()) + direction * 2e-15 * max(1.0, abs(tr)))   # just after
            elif mode < 0.65:
                pts.add(tr - direction * 2e-15 * max(1.0, abs(tr)))                           # just before
        B = sorted((p for p in pts if (p - t0) * direction >= 0 and (tf - p) * direction > 1e-9), reverse=(direction < 0))
        if B and B[0] != t0:
            B = [t0] + B
        B.append(tf)
        # drop boundaries that are closer than 1e-13 (a zero-length step is not a legal request)
        C = [B[0]]
        for b in B[1:]:
            if abs(b - C[-1]) > 1e-13 * max(1.0, abs(b)) or b == tf:
                C.append(b)
        B = C
        acc = t0
        plan = []
        for b in B[1:]:
            dtj = b - acc
            plan.append(abs(dtj))
            acc = acc + dtj
        if len(plan) >= 2:
            s["dt"] = plan[0] * (1 if s["dt"] > 0 else -1)
            op["callbacks"] = ["plan"]
            op["plan"] = plan[1:]
    ops = [op]
    if profile == "C07" and r.random() < 0.45 and roots:
        # split the integration AT a root: integrate(root) then integrate(); prefer a later root of a periodic time event
        # (a crossing of a function that has already fired before the call boundary)
        later = sorted([x for x in roots if x[1] == "tsin"], key=lambda x: x[0] * direction)[1:]
        tr = (r.choice(later) if later and r.random() < 0.7 else r.choice(roots))[0]
        if (tr - t0) * direction > 0.05 * L and (tf - tr) * direction > 0.05 * L:
            op1 = dict(op)
            op1["t"] = tr if r.random() < 0.6 else round(tr, 6)
            op1.pop("callbacks", None)
            op1.pop("plan", None)
            op2 = {"op": "integrate", "events": list(range(nev))}
            ops = [op1, op2]
    if profile == "C09":
        x = r.random()
        if x < 0.3:
            op["t"] = "inf" if direction > 0 else "-inf"
            for e in evs:
                if e["terminal"] and e["kind"] == "time":
                    e["direction"] = 0          # must be guaranteed to fire, whatever the direction of integration
            if not any(e["terminal"] and e["kind"] == "time" for e in evs):
                evs.append({"kind": "time", "comp": 0, "c": round(t0 + (tf - t0) * r.uniform(0.5, 0.95), 5), "scale": 1.0, "direction": 0, "terminal": True})
                op["events"] = list(range(len(evs)))
            op.pop("callbacks", None)
            op.pop("plan", None)
        # continuation after the stop
        cont = r.random()
        rc_ = sub(seed, "cont_same")
        if rc_.random() < 0.3:
            # continuation that monitors the SAME events, the terminal one included: it starts on the crossing it stopped at and has to
            # move on to the target or to a later terminal crossing; sometimes twice in a row
            ops.append({"op": "integrate", "events": list(op["events"])})
            if rc_.random() < 0.5:
                ops.append({"op": "integrate", "events": list(op["events"])})
        elif cont < 0.5:
            ops.append({"op": "integrate"})
        elif cont < 0.75:
            nonterm = [j for j, e in enumerate(evs) if not e["terminal"]]
            o2 = {"op": "integrate"}
            if nonterm:
                o2["events"] = nonterm
            ops.append(o2)
        elif cont < 0.9:
            ops.append({"op": "integrate"})
            ops.append({"op": "integrate", "t": round(tf + (tf - t0) * r.uniform(0.1, 0.4), 6)})
        rf = sub(seed, "faults")
        if rf.random() < 0.25:
            scn["faults"].append({"op": 0, "seam": "rhs", "at": rf.randrange(1, 200), "kind": "raise"})
            # the resume heads for the finite end of the span: if the fault does not fire, op 0 has already stopped at the terminal
            # event and a resume towards infinity would have nothing left to stop it
            resume = {"op": "integrate", "events": list(op["events"])}
            ops.insert(1, resume)
    if profile == "C08" and r.random() < 0.3:
        scn["knobs"]["alloc_cap"] = r.choice([1, 2, 3])
    rag_ = sub(seed, "against")
    if profile == "C09" and rag_.random() < 0.12 and not any(o.get("plan") for o in ops):
        # the same history with the system DECLARED the other way round: every call heads against the system's nominal (t0, tf)
        # direction; in half of these the step is at least as long as the first leg
        tf_run = s["tf"]
        s["tf"] = round(2 * s["t0"] - tf_run, 6)
        for o in ops:
            if o["op"] == "integrate" and o.get("t") is None:
                o["t"] = tf_run
        if rag_.random() < 0.5:
            s["dt"] = round(abs(tf_run - s["t0"]) * rag_.uniform(1.0, 2.0), 4) * rag_.choice([1, -1])
        scn["against_declared_span"] = True
    rfe_ = sub(seed, "evfault")
    if profile == "C08" and rfe_.random() < 0.15:
        # a transient failure of an event function while the roots of a step are being located, then the caller resumes: the step in
        # which it happened still has to be examined
        scn["faults"].append({"op": 0, "seam": "event", "at": rfe_.randrange(1, 120), "kind": rfe_.choice(["raise", "raise", "kbdint"])})
        resume = {"op": "integrate", "events": list(ops[0].get("events", []))}
        ops = [ops[0], resume] + ops[1:]
    scn["ops"] = ops
    return scn


GENERATORS["C07"] = lambda seed: gen_EV(seed, "C07")
GENERATORS["C08"] = lambda seed: gen_EV(seed, "C08")
GENERATORS["C09"] = lambda seed: gen_EV(seed, "C09")


def gen_C04(seed):
    r = sub(seed, "ops")
    x = r.random()
    if x < 0.6:
        fams = r.choice([["explicit_fixed"], ["splitting"], ["implicit_fixed"], ["explicit_fixed", "splitting", "implicit_fixed"]])
    else:
        fams = ["explicit_adaptive", "explicit_adaptive", "implicit_adaptive", "richardson"]      # only the shift / reflection relation applies
    fam_choice = r.choice(["linear", "osc", "duffing", "logistic", "pendulum", "smoothnet"])
    scn, direction = base_scenario(seed, "C04", fams, family=None if "splitting" in fams else fam_choice, max_steps=24,
                                   dtype=r.choice(["float64"] * 8 + ["float32", "longdouble"]))
    prob = scn["problem"]
    if prob["family"] == "smoothnet":
        prob["params"]["v"] = [0.0 for _ in prob["params"]["v"]]           # autonomous
    if prob["family"] == "cosdecay":
        scn["problem"] = gen_problem(sub(seed, "problem2"), family="logistic", dtype=prob["dtype"])
    s = scn["system"]
    L = abs(s["tf"] - s["t0"])
    if abs(s["dt"]) > L:
        s["dt"] = L / 4
    s["dense"] = False
    nops = r.choice([1, 1, 2, 3])
    ops = []
    cur = s["t0"]
    for j in range(nops):
        op = {"op": "integrate"}
        if j < nops - 1:
            op["t"] = round(cur + (s["tf"] - cur) * r.uniform(0.3, 0.8), 6)
            cur = op["t"]
        ops.append(op)
    rr_ = sub(seed, "reset_history")
    if rr_.random() < 0.18:
        # a first leg (sometimes shorter than one step, sometimes run with an adaptive method that moves dt around), then reset(), then
        # the run proper: after reset() the step in force is the one the user asked for
        first = {"op": "integrate", "t": round(s["t0"] + (s["tf"] - s["t0"]) * (rr_.uniform(0.001, 0.02) if rr_.random() < 0.5 else rr_.uniform(0.3, 0.9)), 6)}
        pre = [first, {"op": "reset"}]
        if not is_adaptive(s["method"]) and not s["method"].startswith("Rich:") and rr_.random() < 0.5 and prob["dtype"] == "float64":
            pre = [{"op": "set", "attr": "method", "value": "RK45CKSolver"}, {"op": "set", "attr": "rtol", "value": 1e-6}, first, {"op": "reset"},
                   {"op": "set", "attr": "method", "value": s["method"]}]
        ops = pre + ops
        scn["reset_history"] = True
    scn["ops"] = ops
    scn["knobs"].pop("alloc_cap", None)
    rf = sub(seed, "faults")
    if is_implicit(s["method"]) and rf.random() < 0.5:
        for _ in range(rf.choice([1, 2])):
            iops_ = [q for q, o_ in enumerate(ops) if o_["op"] == "integrate"]
            scn["faults"].append({"op": rf.choice(iops_), "seam": "solver", "at": rf.randrange(1, 10), "kind": rf.choice(["nonconv", "nonconv", "linalg"])})
        if rf.random() < 0.4:
            scn["knobs"]["newton_cap"] = rf.choice([1, 2, 4])
    scn["twin"] = r.choice(["shift", "shift", "reflect", "none"]) if not scn.get("reset_history") else "none"
    scn["shift"] = r.choice([1, -1]) * 2.0 ** r.randint(-2, 7)
    rs_ = sub(seed, "farshift")
    if is_adaptive(s["method"]) and scn["problem"]["dtype"] != "float32" and rs_.random() < 0.4:
        # time axis far away from the state's magnitude (|t| >> |y|): nothing in an autonomous computation may scale with |t|
        scn["shift"] = rs_.choice([1, -1]) * 2.0 ** rs_.randint(9, 13)
    return scn


GENERATORS["C04"] = gen_C04
