"""Seams: class/module-level pass-through wrappers installed once per process.

Every wrapper calls the original; when no world is active it does nothing else.  No file in
/repo is modified -- each seam is an attribute the library looks up at call time.
"""
import numpy as np

CURRENT = None          # the active World (or None)
_installed = False
ORIG = {}


def _copy(x):
    return np.array(x, copy=True)


def install():
    global _installed
    if _installed:
        return
    _installed = True
    import scipy.optimize
    from desolver.integrators import integrator_types as IT
    from desolver.utilities import optimizer as OPT
    from desolver import differential_system as DS

    # ---- integrator calls and step attempts -------------------------------------------
    def wrap_call(cls, kind):
        orig = cls.__call__
        ORIG[(cls, "__call__")] = orig

        def __call__(self, rhs, initial_time, initial_state, constants, timestep, *a, **kw):
            # extra positional / keyword arguments are handed through untouched: the seam must not depend on the exact signature
            w = CURRENT
            if w is None:
                return orig(self, rhs, initial_time, initial_state, constants, timestep, *a, **kw)
            rec = w.begin_icall(self, kind, initial_time, initial_state, timestep)
            try:
                out = orig(self, rhs, initial_time, initial_state, constants, timestep, *a, **kw)
            except BaseException as e:
                w.end_icall(rec, self, None, e)
                raise
            w.end_icall(rec, self, out, None)
            return out
        __call__.__wrapped__ = orig
        cls.__call__ = __call__

    def wrap_step(cls):
        orig = cls.step
        ORIG[(cls, "step")] = orig

        def step(self, rhs, initial_time, initial_state, constants, timestep, *a, **kw):
            w = CURRENT
            if w is None:
                return orig(self, rhs, initial_time, initial_state, constants, timestep, *a, **kw)
            att = w.begin_attempt(self, timestep)
            out = orig(self, rhs, initial_time, initial_state, constants, timestep, *a, **kw)
            w.end_attempt(att, self)
            return out
        step.__wrapped__ = orig
        cls.step = step

    wrap_call(IT.RungeKuttaIntegrator, "rk")
    wrap_call(IT.ExplicitSymplecticIntegrator, "split")
    wrap_step(IT.RungeKuttaIntegrator)
    wrap_step(IT.ExplicitSymplecticIntegrator)
    ORIG["wrap_call"] = wrap_call

    # ---- nonlinear solver front-end ----------------------------------------------------
    orig_nr = OPT.nonlinear_roots
    ORIG["nonlinear_roots"] = orig_nr

    def nonlinear_roots(f, x0, *a, **kw):
        w = CURRENT
        if w is None or w.in_solver:
            return orig_nr(f, x0, *a, **kw)
        return w.solver_seam(orig_nr, f, x0, a, kw)
    OPT.nonlinear_roots = nonlinear_roots

    orig_root = scipy.optimize.root
    ORIG["scipy_root"] = orig_root

    def root(fun, x0, *a, **kw):
        w = CURRENT
        res = orig_root(fun, x0, *a, **kw)
        if w is not None:
            res = w.minpack_seam(res)
        return res
    scipy.optimize.root = root

    # ---- Jacobian requests ---------------------------------------------------------------
    orig_jac = DS.DiffRHS.jac
    ORIG["DiffRHS.jac"] = orig_jac

    def jac(self, t, y, *a, **kw):
        w = CURRENT
        if w is None:
            return orig_jac(self, t, y, *a, **kw)
        rec = w.begin_jacreq(self, t, y)
        out = orig_jac(self, t, y, *a, **kw)
        w.end_jacreq(rec, out)
        return out
    DS.DiffRHS.jac = jac

    # ---- allocator knob -------------------------------------------------------------------
    name_steps = "_OdeSystem__alloc_space_steps"
    orig_steps = getattr(DS.OdeSystem, name_steps)
    ORIG[name_steps] = orig_steps

    def alloc_space_steps(self, tf, *a, **kw):
        n = orig_steps(self, tf, *a, **kw)
        w = CURRENT
        if w is not None and w.alloc_cap is not None:
            w.probe("alloc_cap_applied")
            return max(1, min(int(w.alloc_cap), n))
        return n
    setattr(DS.OdeSystem, name_steps, alloc_space_steps)

    name_alloc = "_OdeSystem__allocate_soln_space"
    orig_alloc = getattr(DS.OdeSystem, name_alloc)
    ORIG[name_alloc] = orig_alloc

    def allocate_soln_space(self, num_units, *a, **kw):
        w = CURRENT
        if w is None:
            return orig_alloc(self, num_units, *a, **kw)
        w.alloc_depth += 1
        if w.alloc_depth == 1:
            w.alloc_calls += 1
            w.arm_alloc_fault()
        try:
            return orig_alloc(self, num_units, *a, **kw)
        finally:
            w.alloc_depth -= 1
    setattr(DS.OdeSystem, name_alloc, allocate_soln_space)

    # the library allocates through autoray's numpy "zeros"; register a pass-through that can fail once
    import autoray

    def zeros(*a, **kw):
        w = CURRENT
        if w is not None and w.alloc_depth > 0 and w.alloc_fault_armed:
            w.alloc_fault_armed = False
            w.fire(w.alloc_fault)
            raise MemoryError("injected allocation failure")
        return np.zeros(*a, **kw)
    autoray.register_function("numpy", "zeros", zeros)


_RICH = {}


def richardson(base_cls, k):
    """generate_richardson_integrator(base, k) with the call seam installed on the generated class."""
    key = (base_cls, k)
    if key not in _RICH:
        from desolver.integrators import integrator_types as IT
        cls = IT.generate_richardson_integrator(base_cls, k)
        ORIG["wrap_call"](cls, "rich")
        _RICH[key] = cls
    return _RICH[key]
