"""Oracles: monitors evaluated in the loop (after every recorded step) and after every op.

Every oracle has an id "<property>.<name>"; a violation is recorded in world.violations and
never raised (a raise inside a callback would itself be a fault).
"""
import numpy as np

from .world import Monitor
from .refmodels import ref_rk_step, ref_split_step, stage_residual, RefHermite, bitwise_equal, eps_of
from .peers import Boom


def _f(x):
    return float(np.asarray(x))


def sgn(x):
    x = _f(x)
    return (x > 0) - (x < 0)


def op_target(world, op):
    t = op.get("t")
    if t is None:
        return _f(world.system.tf)
    if t == "inf":
        return float("inf")
    return float(t)


def integrated_ok(snap):
    return snap["kind"] == "integrate" and snap["exc"] is None


# ======================================================================================== C03
class Structure(Monitor):
    """C03: grid covers exactly the requested span, in order; pairing; finiteness; dtype."""
    prop = "C03"

    def __init__(self, prop="C03", in_loop=True):
        self.prop = prop
        self.in_loop = in_loop

    def before_op(self, world, i, op, pre):
        self.start_n = pre["n"]
        self.start_t = _f(pre["t"][-1])
        self.target = op_target(world, op)
        self.dir = sgn(self.target - self.start_t) if np.isfinite(self.target) else sgn(world.system.dt)

    def on_step(self, world, system):
        if not self.in_loop:
            return
        P = self.prop
        n = len(system)
        t = system.t
        y = system.y
        if not (len(t) == n and len(y) == n):
            world.violate(P, P + ".paired_in_loop", "len(t)=%d len(y)=%d len(system)=%d" % (len(t), len(y), n))
            return
        if n >= 2:
            d = _f(t[-1]) - _f(t[-2])
            if not d * self.dir > 0:
                world.violate(P, P + ".monotone_in_loop", "t[-2]=%r t[-1]=%r dir=%d" % (_f(t[-2]), _f(t[-1]), self.dir))
        if not (np.all(np.isfinite(y[-1])) and np.isfinite(_f(t[-1]))):
            world.violate(P, P + ".finite_in_loop", "non-finite row at index %d" % (n - 1))

    def after_op(self, world, i, op, pre, snap):
        P = self.prop
        t, y = snap["t"], snap["y"]
        dtype = world.problem.dtype
        eps = eps_of(dtype)
        if not (len(t) == len(y) == snap["n"]):
            world.violate(P, P + ".paired", "len(t)=%d len(y)=%d len=%d" % (len(t), len(y), snap["n"]))
            return
        if t.dtype != dtype or y.dtype != dtype:
            world.violate(P, P + ".dtype", "t %s y %s expected %s" % (t.dtype, y.dtype, dtype))
        t0 = np.asarray(world.scn["system"]["t0"], dtype=dtype)
        if not bitwise_equal(t[0], t0):
            world.violate(P, P + ".starts_at_t0", "t[0]=%r t0=%r" % (_f(t[0]), _f(t0)))
        if not bitwise_equal(y[0], world.caller_y0_copy):
            world.violate(P, P + ".first_state_is_y0", "y[0] differs from y0")
        if not (np.all(np.isfinite(t)) and np.all(np.isfinite(y))):
            world.violate(P, P + ".finite", "non-finite stored value")
        if snap["kind"] == "reset":
            return
        # earlier rows untouched
        m = pre["n"]
        if snap["n"] >= m:
            if not (bitwise_equal(t[:m], pre["t"]) and bitwise_equal(y[:m], pre["y"])):
                world.violate(P, P + ".history_immutable", "rows recorded before op %d changed" % i)
        elif snap["kind"] == "integrate":
            world.violate(P, P + ".history_immutable", "row count shrank %d -> %d" % (m, snap["n"]))
        if snap["kind"] != "integrate":
            return
        target = self.target
        start = self.start_t
        seg = np.asarray(t[m - 1:], dtype=np.float64) if m >= 1 else np.asarray(t, dtype=np.float64)
        d = np.diff(seg)
        if len(d) and not np.all(d * self.dir > 0):
            j = int(np.argmax(~(d * self.dir > 0)))
            world.violate(P, P + ".monotone", "segment of op %d not strictly monotone toward target at row %d: %r -> %r (dir %d)"
                          % (i, m - 1 + j, seg[j], seg[j + 1], self.dir))
        if np.isfinite(target):
            scale = max(abs(target), abs(start), 1.0)
            over = (target - seg) * self.dir
            if np.any(over < -32 * eps * scale):
                j = int(np.argmin(over))
                world.violate(P, P + ".no_overshoot", "row %d time %r beyond target %r (dir %d)" % (m - 1 + j, seg[j], target, self.dir))
        noop = np.isfinite(target) and abs(target - start) < 4 * eps
        if snap["exc"] is None and not noop:
            if not snap["success"]:
                world.violate(P, P + ".status_success", "integrate returned but success is False: %s" % snap["status"])
            terminated = "terminated upon finding" in snap["status"] and op.get("events")
            if np.isfinite(target) and not terminated:
                scale = max(abs(target), abs(start), 1.0)
                if abs(_f(t[-1]) - target) > 32 * eps * scale:
                    world.violate(P, P + ".ends_at_target", "t[-1]=%r target=%r start=%r" % (_f(t[-1]), target, start))
                if "completed successfully" not in snap["status"] and not op.get("events"):
                    world.violate(P, P + ".status_text", "status after a completed run: %s" % snap["status"])


# ======================================================================================== C20
class Counters(Monitor):
    """C20: nfev/njev equal peer-side counts; callbacks once per recorded step, ordered, visible; dt honoured."""
    prop = "C20"

    def __init__(self, prop="C20"):
        self.prop = prop

    def _check_counts(self, world, system, where):
        P = self.prop
        want = world.rhs_completed - world.rhs_completed_at_reset
        got = int(system.nfev)
        if got != want:
            world.violate(P, P + ".nfev_exact", "%s: nfev=%d but the rhs peer completed %d calls since construction/reset" % (where, got, want))
        nj = int(system.njev)
        if nj not in (world.jacreq_returned, world.jacreq_returned - world.jacreq_at_reset):
            world.violate(P, P + ".njev_exact", "%s: njev=%d but %d Jacobian requests returned (%d since reset)"
                          % (where, nj, world.jacreq_returned, world.jacreq_returned - world.jacreq_at_reset))

    def on_step(self, world, system):
        self._check_counts(world, system, "in loop")

    def before_op(self, world, i, op, pre):
        self.cb0 = len(world.cb_log)
        self.ic0 = len(world.icalls)

    def after_op(self, world, i, op, pre, snap):
        P = self.prop
        self._check_counts(world, world.system, "after op %d (%s)" % (i, snap["kind"]))
        if snap["kind"] != "integrate":
            return
        names = list(op.get("callbacks", []))
        recs = world.cb_log[self.cb0:]
        top = [c for c in world.icalls[self.ic0:] if c["depth"] == 0 and c["nested"] == 1]
        top_ok = [c for c in top if c["ok"]]
        if names:
            k = len(names)
            # order within rounds
            for j, r in enumerate(recs):
                if r["cb"] != names[j % k]:
                    world.violate(P, P + ".cb_order", "callback #%d was %s, expected %s" % (j, r["cb"], names[j % k]))
                    break
            rounds = [recs[j:j + k] for j in range(0, len(recs), k)]
            full = [r for r in rounds if len(r) == k]
            if snap["exc"] is None and len(full) != len(top_ok):
                world.violate(P, P + ".cb_once_per_step", "%d callback rounds for %d loop iterations" % (len(full), len(top_ok)))
            prev_done = None
            prev_len = pre["n"]
            for ri, r in enumerate(rounds):
                r0 = r[0]
                if prev_done is not None and r0["icalls_done"] == prev_done:
                    world.violate(P, P + ".cb_once_per_step", "round %d invoked again without a new step" % ri)
                prev_done = r0["icalls_done"]
                if not (r0["len"] > prev_len):
                    world.violate(P, P + ".cb_after_record", "round %d: len(system)=%d not beyond %d" % (ri, r0["len"], prev_len))
                prev_len = r0["len"]
                for rr in r:
                    n = rr["len"]
                    if not (rr["t_len"] == n and rr["y_len"] == n):
                        world.violate(P, P + ".cb_visible", "callback saw len=%d t_len=%d y_len=%d" % (n, rr["t_len"], rr["y_len"]))
                        continue
                    if n <= snap["n"]:
                        if not (bitwise_equal(rr["t_last"], snap["t"][n - 1]) and bitwise_equal(rr["y_last"], snap["y"][n - 1])
                                and bitwise_equal(rr["item_t"], rr["t_last"]) and bitwise_equal(rr["item_y"], rr["y_last"])):
                            world.violate(P, P + ".cb_visible", "row %d seen by callback differs from the row finally recorded" % (n - 1))
                    elif snap["exc"] is None:
                        world.violate(P, P + ".cb_visible", "callback saw %d rows, only %d recorded" % (n, snap["n"]))
        # dt assigned by a callback is used for the next step
        target = op_target(world, op)
        for r in recs:
            if "dt_set" not in r:
                continue
            later_setter = [q for q in recs if q["seq"] > r["seq"] and q["icalls_done"] == r["icalls_done"] and "dt_set" in q]
            if later_setter:
                continue
            nxt = [c for c in top if c["seq0"] >= r["seq"]]
            if not nxt:
                continue
            c = nxt[0]
            h = c["h_req"]
            want = r["dt_set"]
            if bitwise_equal(np.abs(h), np.abs(want)):
                world.probe("cb_dt_honoured")
                continue
            clamp_ok = np.isfinite(target) and abs(_f(h)) < abs(_f(want)) and abs(_f(c["t0"]) + _f(h) - target) <= 4 * eps_of(h.dtype) * max(1.0, abs(target))
            if clamp_ok:
                world.probe("cb_dt_clamped_final")
                continue
            world.violate(P, P + ".cb_dt_used", "callback set dt=%r, next step attempted h=%r (t=%r target=%r)" % (_f(want), _f(h), _f(c["t0"]), target))


# ======================================================================================== C02 (+ reuse)
def match_icall(world, t_i, y_i, t_n):
    """find the completed integrator call that produced the recorded step (t_i,y_i) -> t_n."""
    best = None
    for c in world.icalls:
        if c["depth"] != 0 or not c["ok"]:
            continue
        if bitwise_equal(c["t0"], t_i) and bitwise_equal(c["y0"], y_i) and bitwise_equal(np.asarray(c["t0"] + c["dTime"], dtype=t_i.dtype), t_n):
            best = c
    return best


def check_rows(world, snap, first_row, prop, oracle_prefix, do_implicit=True):
    """Every recorded step rows[j] -> rows[j+1], j >= first_row, must be a valid step of the method."""
    t, y = snap["t"], snap["y"]
    f = world.f_math
    for j in range(max(first_row, 0), snap["n"] - 1):
        c = match_icall(world, t[j], y[j], t[j + 1])
        if c is None:
            world.violate(prop, oracle_prefix + ".row_has_step", "row %d -> %d (t=%r -> %r) matches no completed integrator call" % (j, j + 1, _f(t[j]), _f(t[j + 1])))
            continue
        integ = c["integ"]
        h = c["dTime"]
        dy_rec = y[j + 1] - y[j]
        eps = eps_of(y.dtype)
        if not bitwise_equal(np.asarray(y[j] + c["dState"], dtype=y.dtype), y[j + 1]):
            world.violate(prop, oracle_prefix + ".row_is_y_plus_increment", "row %d is not y+dState of its step" % (j + 1))
        if c["attempts"] and c["kind"] != "rich":
            last = c["attempts"][-1]
            if not (last["done"] and bitwise_equal(last["h"], h)):
                world.violate(prop, oracle_prefix + ".recorded_is_last_attempt", "row %d: recorded h=%r, last attempt h=%r" % (j + 1, _f(h), _f(last["h"])))
        if c["kind"] == "split":
            dy_ref, scale = ref_split_step(integ, f, c["t0"], c["y0"], h)
            s = integ.tableau_intermediate.shape[0]
            bound = 64 * s * eps * max(scale, 1e-300)
            err = float(np.max(np.abs(dy_ref - c["dState"])))
            world.ratio(oracle_prefix + ".split_step_formula", err / bound)
            if err > bound:
                world.violate(prop, oracle_prefix + ".split_step_formula", "row %d: |dy - composition| = %.3e > %.3e (h=%r)" % (j + 1, err, bound, _f(h)))
        elif c["kind"] == "rk" and not c["implicit"]:
            dy_ref, K, scale = ref_rk_step(integ, f, c["t0"], c["y0"], h)
            s = integ.stages
            L = world.problem.lipschitz(**world.system.constants) if hasattr(world.problem, "lipschitz") else 1.0
            amp = (1.0 + abs(_f(h)) * L) ** min(s, 8)
            bound = 64 * s * eps * max(scale, 1e-300) * amp
            err = float(np.max(np.abs(dy_ref - c["dState"])))
            world.ratio(oracle_prefix + ".rk_step_formula", err / bound)
            if err > bound:
                world.violate(prop, oracle_prefix + ".rk_step_formula", "row %d: |dy - h*sum(b k)| = %.3e > %.3e (h=%r, %s)" % (j + 1, err, bound, _f(h), c["cls"]))
        elif c["kind"] == "rk" and c["implicit"] and do_implicit:
            K = c["stages"]
            tabI = np.asarray(integ.tableau_intermediate)
            tabF = np.asarray(integ.tableau_final)
            res = stage_residual(tabI, f, c["t0"], c["y0"], h, K)
            atol, rtol = _f(integ.atol), _f(integ.rtol)
            desired = 0.5 * abs(atol + float(np.max(np.abs(rtol * c["y0"]))))
            kmax = float(np.max(np.abs(K))) if K.size else 0.0
            bound = 10 * desired + 256 * eps * (kmax + 1.0)
            world.ratio(oracle_prefix + ".implicit_stage_residual", res / bound)
            if res > bound:
                world.violate(prop, oracle_prefix + ".implicit_stage_residual", "row %d: stage residual %.3e > %.3e (tol %.3e, h=%r, %s)" % (j + 1, res, bound, desired, _f(h), c["cls"]))
            dy_ref = h * np.sum(K * tabF[0, 1:], axis=-1)
            scale = abs(_f(h)) * float(np.sum(np.abs(tabF[0, 1:]))) * kmax
            bound2 = 64 * integ.stages * eps * max(scale, 1e-300)
            err = float(np.max(np.abs(dy_ref - c["dState"])))
            world.ratio(oracle_prefix + ".implicit_increment", err / bound2)
            if err > bound2:
                world.violate(prop, oracle_prefix + ".implicit_increment", "row %d: |dy - h*sum(b k)| = %.3e > %.3e" % (j + 1, err, bound2))
            # accepted => the last solve of the call reported success
            last = c["attempts"][-1] if c["attempts"] else None
            if last is not None and last["solves"]:
                sv = last["solves"][-1]
                if not sv.get("success", False):
                    world.violate(prop, oracle_prefix + ".accepted_unconverged", "row %d recorded although its stage solve reported failure (injected=%s)" % (j + 1, sv.get("injected")))


class StepValidity(Monitor):
    """C02: every recorded step equals the RK update defined by the method's tables; unconverged implicit steps never accepted."""

    def __init__(self, prop="C02"):
        self.prop = prop

    def after_op(self, world, i, op, pre, snap):
        if snap["kind"] != "integrate":
            return
        check_rows(world, snap, pre["n"] - 1, self.prop, self.prop)
        # every completed implicit integrator call (recorded or not): result is the last attempt and its solve succeeded
        for c in world.icalls:
            if c["op"] != i or c["depth"] != 0 or not c["ok"] or c["kind"] != "rk" or not c.get("implicit"):
                continue
            last = c["attempts"][-1]
            if last["solves"] and not last["solves"][-1].get("success", False):
                world.violate(self.prop, self.prop + ".accepted_unconverged", "integrator call %d returned a step whose stage solve reported failure" % c["id"])
