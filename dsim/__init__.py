"""dsim -- deterministic simulation with fault injection for Microno95/desolver.

See /verif/DESIGN.md.  Importing this package never imports desolver; call
``dsim.boot.boot()`` first (it fixes the environment and sys.path).
"""
