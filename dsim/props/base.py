"""Base class of a property check: generator + scenario runner + facts for known-finding signatures."""
from ..world import World
from ..runner import absorb
from .. import gen

COMPONENTS = {
    "real": ["desolver.OdeSystem (integrate loop, buffers, status, events, reset, lookups)", "desolver.DiffRHS (counters, Jacobian dispatch)",
             "desolver.DenseOutput / CubicHermiteInterp", "all integrator classes incl. step-rejection and Newton retry loops",
             "desolver.utilities.optimizer (nonlinear_roots, hybrj, newtontrustregion, brentsrootvec)", "scipy MINPACK (real; result post-edited only when a fault is scheduled)"],
    "simulated": ["user right-hand side (seeded mathematical program)", "user Jacobian", "event functions", "callbacks (incl. dt scheduler)",
                  "allocator failure (MemoryError at the numpy.zeros seam)", "tuning knobs: buffer cap, retry cap, Newton cap"],
    "stubbed": [],
    "not_run": ["torch backend (not installed)", "tqdm progress bar / wall clock (eta=False always)"],
}
EXCLUDED = ["Richardson wrappers of implicit or splitting bases (three orders of magnitude slower; backward symplectic Richardson does not terminate: DESIGN.md D14)",
            "float16/bfloat16", "torch backend"]


class Prop(object):
    pid = None
    level = "exploration"
    rule = ""
    state_measure = "(method family, direction, dense, events?, dtype, fault kind, crash phase)"
    components = COMPONENTS
    excluded = EXCLUDED
    assumptions = []
    quick = {"seeds": 200, "wall_cap": 75, "chunk": 8}
    thorough = {"seeds": 4000, "wall_cap": 900, "chunk": 16}

    def budget(self, tier):
        return self.quick if tier == "quick" else self.thorough

    def generate(self, seed, tier):
        return [gen.gen_scenario(seed, self.pid)]

    def monitors(self, scn):
        return []

    def run(self, scn, res):
        w = World(scn, monitors=self.monitors(scn))
        try:
            w.run()
        finally:
            absorb(res, w)
            res["violations"].extend(v for v in w.violations if v["property"] == self.pid)
            res["digest"] = w.hexdigest()
        res["nontrivial"] = w.top_icalls_done >= 1
        res["state_keys"] = self.state_keys(scn, w)
        return w

    def state_keys(self, scn, w):
        f = self.facts(scn, None)
        base = (f["method_family"], f["direction"], f["dense"], f["events"], f["dtype"])
        keys = [repr(base + ("nofault", ""))] if not w.fired else []
        for fr in w.fired:
            keys.append(repr(base + (fr["fault"]["seam"] + "_" + fr["fault"]["kind"], fr["phase"])))
        return keys

    def facts(self, scn, viol):
        s = scn["system"]
        d = 1 if s["tf"] > s["t0"] else -1
        return {
            "method": s.get("method"), "method_family": gen.method_family(s["method"]) if s.get("method") else None,
            "direction": "forward" if d > 0 else "backward", "dense": bool(s.get("dense")), "dtype": scn["problem"].get("dtype", "float64"),
            "events": bool(scn.get("events")), "jac": s.get("jac", "none"), "has_faults": bool(scn.get("faults")), "family": scn["problem"].get("family"),
            "fault_seams": sorted(set(f["seam"] for f in scn.get("faults", []))),
        }
