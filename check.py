import argparse
import os
import sys

HERE = os.path.dirname(os.path.abspath(__file__))
sys.path.insert(0, HERE)
from dsim import boot  # noqa: E402

boot.ensure_env([os.path.abspath(__file__)] + sys.argv[1:])


def main():
    ap = argparse.ArgumentParser()
    ap.add_argument("pid")
    ap.add_argument("--tier", default=os.environ.get("VERIF_TIER", "quick"), choices=["quick", "thorough"])
    ap.add_argument("--replay")
    ap.add_argument("--seeds", type=int)
    ap.add_argument("--jobs", type=int, default=int(os.environ.get("DSIM_JOBS", "16")))
    ap.add_argument("--wall-cap", type=float)
    ap.add_argument("--quiet", action="store_true")
    a = ap.parse_args()
    from dsim import runner
    repo = boot.repo_path()
    if a.replay:
        return runner.main_replay(a.pid, a.replay, quiet=a.quiet)
    seed = int(os.environ.get("VERIF_SEED", "0") or 0)
    return runner.main_check(a.pid, a.tier, seed, jobs=a.jobs, repo=repo, nseeds=a.seeds, wall_cap=a.wall_cap)


if __name__ == "__main__":
    try:
        rc = main()
    except SystemExit:
        raise
    except BaseException:
        import traceback
        traceback.print_exc()
        rc = 2
    sys.stdout.flush()
    sys.exit(rc)
