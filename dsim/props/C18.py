import copy

import numpy as np

from .base import Prop
from ..world import World, _c, method_class, _MonitorCallback
from ..peers import SimRHS, SimJac, SimEvent, Boom, BudgetExceeded, WallTimeout
from ..runner import absorb
from ..refmodels import bitwise_equal, eps_of, canon_bytes
from .. import gen, seams, oracles


def make_fun(simrhs, names, defaults=None):
    """plain function fun(t, y, <names...>) forwarding to the simulated rhs peer with keyword constants.  `defaults` (name -> value)
    gives parameters a default value: a caller may then pass fewer args than there are parameters."""
    ns = {"_rhs": simrhs}
    defaults = defaults or {}
    args = "".join(", %s%s" % (n, ("=%r" % defaults[n]) if n in defaults else "") for n in names)
    kw = ", ".join("%s=%s" % (n, n) for n in names)
    exec("def fun(t, y%s):\n    return _rhs(t, y%s)\n" % (args, (", " + kw) if kw else ""), ns)
    return ns["fun"]


def wrap_with_jacobian(world, fun):
    """the user hands over the right-hand side already wrapped (DiffRHS / rhs_prettifier) with an analytic Jacobian hooked on."""
    import desolver as de
    d = de.DiffRHS(fun)
    J = SimJac(world, world.problem, "hook")
    world.jac_peers = [J]
    d.hook_jacobian_call(J)
    return d


class ClipCallback(object):
    """what solve_ivp installs for max_step/min_step (not a simulated peer: never counted, never faulted)."""

    def __init__(self, min_step, max_step):
        self.min_step, self.max_step = min_step, max_step

    def __call__(self, ode_sys):
        from desolver import backend as D
        # what a user of the object API does to keep |dt| within [min_step, max_step], whichever way the system is integrating
        ode_sys.dt = D.ar_numpy.sign(ode_sys.dt) * D.ar_numpy.clip(D.ar_numpy.abs(ode_sys.dt), min=self.min_step, max=self.max_step)


class FacadeWorld(World):
    """world A: everything goes through desolver.solve_ivp in one op."""

    def build(self):
        self.rhs = SimRHS(self, self.problem)
        self.events = [SimEvent(self, i, d) for i, d in enumerate(self.scn.get("events", []))]
        self.result = None
        self.exc = None

    def run(self):
        import signal
        import desolver as de
        old = signal.signal(signal.SIGALRM, self._alarm)
        signal.alarm(int(self.wall_s))
        seams.CURRENT = self
        try:
            self.op_index = 0
            self.op_counts = {}
            self.build()
            f = self.scn["facade"]
            s = self.scn["system"]
            p = self.problem
            names = list(f.get("arg_names", []))
            fun = make_fun(self.rhs, names, f.get("defaults"))
            if f.get("wrapped_jac"):
                fun = wrap_with_jacobian(self, fun)
            y0 = p.y0()
            self.caller_y0_copy = _c(y0)
            kw = {}
            for key in ("rtol", "atol"):
                if s.get(key) is not None:
                    kw[key] = s[key]
            if f.get("first_step") is not None:
                kw["first_step"] = f["first_step"]
            if f.get("max_step") is not None:
                kw["max_step"] = f["max_step"]
            m = f["method_arg"]
            method = m if f.get("method_by_name") else method_class(m)
            evs = [self.events[j] for j in f["events"]] if f.get("events") is not None else None
            self.cur_events = evs
            t_eval = None if f.get("t_eval") is None else np.asarray(f["t_eval"], dtype=p.dtype)
            try:
                self.result = de.solve_ivp(fun, (s["t0"], s["tf"]), y0, method=method, t_eval=t_eval, dense_output=bool(s.get("dense")),
                                           events=evs, args=tuple(f["args"]) if f.get("args") is not None else None, **kw)
            except (BudgetExceeded, WallTimeout):
                raise
            except KeyboardInterrupt as e:
                self.exc = e
            except Exception as e:
                self.exc = e
        finally:
            seams.CURRENT = None
            signal.alarm(0)
            signal.signal(signal.SIGALRM, old)
        self.digest.update(("facade|%s|" % type(self.exc).__name__).encode())
        if self.result is not None:
            self.digest.update(canon_bytes(np.asarray(self.result.t)))
            self.digest.update(canon_bytes(np.asarray(self.result.y)))
        return self


class ObjectWorld(World):
    """world B: the object API driven with the op sequence the facade performs."""

    def build(self):
        import desolver as de
        f = self.scn["facade"]
        s = self.scn["system"]
        p = self.problem
        self.rhs = SimRHS(self, p)
        names = list(f.get("arg_names", []))
        consts = None
        if f.get("args") is not None:
            consts = {k: v for k, v in zip(names, f["args"])}      # bound in order: fun(t, y, *args); the rest keep their defaults
        y0 = p.y0()
        self.caller_y0 = y0
        self.caller_y0_copy = _c(y0)
        self.caller_constants = consts
        self.caller_constants_copy = None if consts is None else dict(consts)
        max_step = f.get("max_step") if f.get("max_step") is not None else np.inf
        dt = f.get("first_step") if f.get("first_step") is not None else 1.0
        dt = np.minimum(dt, max_step)
        dt = np.maximum(dt, 0.0)
        self.events = [SimEvent(self, i, d) for i, d in enumerate(self.scn.get("events", []))]
        # the facade passes fun itself; the object API is given the same kind of callable
        fun = make_fun(self.rhs, names, f.get("defaults"))
        if f.get("wrapped_jac"):
            fun = wrap_with_jacobian(self, fun)
        self.system = de.OdeSystem(fun, y0, t=(s["t0"], s["tf"]), dense_output=bool(s.get("dense")), dt=dt,
                                   atol=s.get("atol"), rtol=s.get("rtol"), constants=consts)
        self._wrap_integrate(self.system)
        m = f["method_arg"]
        self.system.method = m if f.get("method_by_name") else method_class(m)
        self.extra_callbacks = [ClipCallback(0.0, max_step)] if f.get("max_step") is not None else []

    def do_op(self, i, op):
        # same as World.do_op for integrate, with the facade's callback list
        self.op_index = i
        self.op_counts = {}
        self.calls = []
        self.calls_by_op[i] = self.calls
        pre = self.snaps[-1] if self.snaps else self.snapshot(-1, {"op": "build"}, None)
        f = self.scn["facade"]
        evs = [self.events[j] for j in f["events"]] if f.get("events") is not None else None
        self.cur_events = evs
        self.cur_op = op
        exc = None
        try:
            self.system.integrate(t=op.get("t"), callback=list(self.extra_callbacks), events=evs, eta=False)
        except (BudgetExceeded, WallTimeout):
            raise
        except KeyboardInterrupt as e:
            exc = e
        except Exception as e:
            exc = e
        snap = self.snapshot(i, op, exc)
        self.snaps.append(snap)
        return snap


class C18(Prop):
    pid = "C18"
    level = "exploration"
    quick = {"seeds": 2500, "wall_cap": 90, "chunk": 16}
    thorough = {"seeds": 50000, "wall_cap": 1500, "chunk": 32}
    rule = ("one case = one seeded call of solve_ivp (method by registered name/alias or by class, all families; state shapes (n,), (n,m), (n,1,m); args "
            "tuples of 0-3 constants bound by position; t_eval None / subsets with or without the end points, unsorted, with repeats; dense_output; "
            "events; first_step; max_step; tolerances; the right-hand side as a plain function or already wrapped with a hooked analytic Jacobian; spans of any sign, forward and (30%) backward) run in world A, and in world B the object API driven with the op "
            "sequence the facade performs under the SAME simulated peers; 15% of cases inject an rhs fault at the same global call index in both worlds. "
            "Closed-form problems are additionally compared with scipy.integrate.solve_ivp.  Non-trivial = at least one recorded step")
    assumptions = ["on a decreasing span t_eval is returned sorted along the direction of integration (scipy's convention); first_step and max_step are magnitudes",
                   "world B mirrors the facade's documented behaviour: dt = min(first_step, max_step), method set after construction, a dt-clipping callback "
                   "when max_step is given, one integrate(t) per sorted t_eval entry",
                   "scipy parity: both within 200*(atol+rtol*|y|)*steps*amplification of each other (RK45-class methods on closed-form problems)"]

    def generate(self, seed, tier):
        r = gen.sub(seed, "ops")
        fams = r.choice([gen.CHEAP_FAMS, gen.CHEAP_FAMS, gen.ALL_FAMS])
        rdir_ = gen.sub(seed, "direction")
        scn, direction = gen.base_scenario(seed, "C18", fams, direction=1 if rdir_.random() < 0.7 else -1, max_steps=16, length=gen.rnd(r, 0.6, 2.5, 3),
                                           want={"exact"} if r.random() < 0.5 else None)
        s = scn["system"]
        if gen.gen_is_slow(s["method"]) or s["method"].startswith("Rich:"):
            s["rtol"], s["atol"] = (s["rtol"] or 1e-4), (s["atol"] or 1e-6)
        s["dt"] = abs(s["dt"])
        s.pop("kick_mask", None)
        s["jac"] = "none"
        m = s["method"]
        by_name = (not m.startswith("Rich:")) and r.random() < 0.6
        marg = m
        if by_name and m in gen.ALIASES and r.random() < 0.6:
            marg = r.choice(gen.ALIASES[m])
        nargs = r.choice([0, 1, 1, 2, 3])
        names = ["k", "c2", "c3"][:nargs]
        if nargs == 0:
            args = None if r.random() < 0.7 else []
        else:
            args = [gen.rnd(r, 0.6, 1.4, 3)] + [gen.rnd(r, 2.0, 9.0, 3) for _ in range(nargs - 1)]
        t0, tf = s["t0"], s["tf"]
        t_eval = None
        x = r.random()
        if x < 0.5:
            n = r.choice([1, 2, 3, 5, 8])
            pts = [round(t0 + (tf - t0) * r.uniform(0.02, 0.98), 5) for _ in range(n)]
            if r.random() < 0.4:
                pts.append(tf)
            if r.random() < 0.3:
                pts.append(t0)
            if r.random() < 0.3 and pts:
                pts.append(r.choice(pts))       # repeated
            if r.random() < 0.6:
                r.shuffle(pts)                  # unsorted
            else:
                pts.sort()
            t_eval = pts
        facade = {"method_arg": marg, "method_by_name": by_name, "args": args, "arg_names": names, "t_eval": t_eval,
                  "first_step": None if r.random() < 0.3 else s["dt"], "max_step": None if r.random() < 0.5 else float("%.4g" % (abs(s["dt"]) * r.uniform(0.3, 2.0))),
                  "events": None}
        if r.random() < 0.25 and scn["problem"]["family"] == "osc":
            scn["events"] = gen.gen_events(r, scn, r.choice([1, 2]), terminal_prob=0.3)
            facade["events"] = list(range(len(scn["events"])))
        rdef_ = gen.sub(seed, "defaults")
        if nargs >= 1 and rdef_.random() < 0.3:
            # the right-hand side has more parameters than the caller passes: every parameter has a default, args covers a prefix
            names = names + ["c9"] if rdef_.random() < 0.5 and len(names) < 3 else names
            facade["arg_names"] = names
            facade["defaults"] = {"k": 1.0, "c2": 5.0, "c3": 7.0, "c9": 2.5}
            keep = rdef_.randint(1, max(1, len(names) - 1))
            facade["args"] = args = list(args[:keep])
        rw_ = gen.sub(seed, "wrapped")
        if rw_.random() < (0.5 if gen.is_implicit(m) else 0.1):
            facade["wrapped_jac"] = True
        scn["facade"] = facade
        s["constants"] = {} if not args else {k: v for k, v in zip(names, args)}
        scn["ops"] = [{"op": "integrate"}] if t_eval is None else [{"op": "integrate", "t": t} for t in sorted(t_eval, reverse=direction < 0)]
        scn["knobs"] = {}
        rf = gen.sub(seed, "faults")
        if t_eval is None and rf.random() < 0.15:
            scn["faults"] = [{"op": 0, "seam": "rhs", "at": rf.randrange(2, 80), "kind": rf.choice(["raise", "kbdint"])}]
        return [scn]

    def facts(self, scn, viol):
        f = super().facts(scn, viol)
        fa = scn.get("facade", {})
        f["t_eval"] = fa.get("t_eval") is not None
        f["max_step"] = fa.get("max_step") is not None
        f["nargs"] = len(fa.get("args") or [])
        return f

    def run(self, scn, res):
        P = "C18"
        V = res["violations"]

        def bad(oracle, detail):
            V.append({"property": P, "oracle": P + "." + oracle, "detail": detail, "op": 0})

        A = FacadeWorld(scn, monitors=[])
        try:
            A.run()
        finally:
            absorb(res, A)
            res["digest"] = A.hexdigest()
        # world B: faults re-indexed (A counts the constructor's probe call inside its single op)
        sb = copy.deepcopy(scn)
        sb["faults"] = [dict(fl, at=fl["at"] - 1) for fl in scn.get("faults", []) if fl["at"] > 1]
        # the op sequence the facade performs follows from its arguments alone (keeps minimised replays self-consistent)
        te_ = scn["facade"].get("t_eval")
        backward = scn["system"]["tf"] < scn["system"]["t0"]
        sb["ops"] = [{"op": "integrate"}] if te_ is None else [{"op": "integrate", "t": t_} for t_ in sorted(te_, reverse=backward)]
        B = ObjectWorld(sb, monitors=[])
        B.run()
        absorb(res, B)
        res["nontrivial"] = B.top_icalls_done >= 1
        res["state_keys"] = self.state_keys(scn, A)
        fa = scn["facade"]
        bs = B.snaps[-1]
        if te_ is not None:
            lo_, hi_ = sorted((scn["system"]["t0"], scn["system"]["tf"]))
            if any(not (lo_ <= t_ <= hi_) for t_ in te_):
                # output times outside the span (the generator never asks for them, a minimised replay may): rejecting them is right
                if A.exc is None:
                    bad("t_eval_times", "t_eval reaches outside t_span and was accepted")
                return A
        if A.exc is not None or any(s_["exc"] is not None for s_ in B.snaps):
            be = [s_["exc"] for s_ in B.snaps if s_["exc"] is not None]
            if A.exc is None or not be:
                bad("failure_agrees", "facade raised %s, object API raised %s" % (type(A.exc).__name__ if A.exc else None, type(be[0]).__name__ if be else None))
            elif type(A.exc) is not type(be[0]):
                bad("failure_agrees", "facade raised %s, object API raised %s" % (type(A.exc).__name__, type(be[0]).__name__))
            return A
        R = A.result
        t = np.asarray(R.t)
        y = np.asarray(R.y)
        state_shape = tuple(scn["problem"]["shape"])
        dtype = B.problem.dtype
        eps = eps_of(dtype)
        if t.ndim != 1 or y.shape != state_shape + (t.shape[0],):
            bad("shapes", "t.shape=%r y.shape=%r for state shape %r" % (t.shape, y.shape, state_shape))
            return A
        nt = t.shape[0]
        if fa.get("t_eval") is None:
            if not (bitwise_equal(t, bs["t"])):
                bad("agrees_with_object_api", "times differ from the object API's (%d vs %d)" % (nt, bs["n"]))
            else:
                for i in range(nt):
                    if not bitwise_equal(y[..., i], bs["y"][i]):
                        bad("columns_pair_up", "column %d of y is not the state recorded for t[%d]" % (i, i))
                        break
            if nt and not bitwise_equal(y[..., 0], B.caller_y0_copy):
                bad("starts_at_y0", "first column is not the initial condition")
        else:
            want_t = np.sort(np.asarray(fa["t_eval"], dtype=dtype))
            if backward:
                want_t = want_t[::-1]
            if nt != len(want_t):
                bad("t_eval_times", "%d times returned for %d t_eval entries" % (nt, len(want_t)))
                return A
            scale = np.maximum(1.0, np.abs(want_t.astype(np.float64)))
            stopped = "terminated upon" in bs["status"]        # a terminal event ends the run before the remaining t_eval entries
            if not stopped and np.any(np.abs((t - want_t).astype(np.float64)) > 32 * eps * scale):
                j = int(np.argmax(np.abs((t - want_t).astype(np.float64))))
                bad("t_eval_times", "returned t[%d]=%r, sorted t_eval[%d]=%r" % (j, float(t[j]), j, float(want_t[j])))
            for i in range(nt):
                snap = B.snaps[i]
                if not (bitwise_equal(np.asarray(t[i]), snap["t"][-1]) and bitwise_equal(y[..., i], snap["y"][-1])):
                    bad("agrees_with_object_api", "column %d (t=%r) differs from the object API after integrate(%r)" % (i, float(t[i]), float(want_t[i])))
                    break
        # args bound to the rhs parameters in order
        names = fa.get("arg_names", [])
        if fa.get("args"):
            want_kw = {k: v for k, v in zip(names, fa["args"])}
            for n_ in names[len(fa["args"]):]:
                want_kw[n_] = fa["defaults"][n_]          # parameters beyond args keep their defaults
            seen = [c["kw"] for c in A.calls if c["seam"] == "rhs"]
            wrong = [kw for kw in seen if kw != want_kw]
            if wrong:
                bad("args_bound_in_order", "rhs received %r, expected %r" % (wrong[0], want_kw))
        # max_step
        if fa.get("max_step") is not None:
            ms = fa["max_step"]
            tn = np.asarray(A.result.ode_system.t)                  # native precision
            d = np.abs(np.diff(tn))
            msn = np.asarray(ms, dtype=tn.dtype)
            if len(d) and bool(np.max(d) > msn * (1 + 8 * eps) + 8 * eps * max(1.0, float(np.max(np.abs(tn))))):
                bad("max_step_respected", "recorded step %.6g longer than max_step %.6g" % (float(np.max(d)), ms))
            for c in A.icalls:
                if c["depth"] == 0:
                    for a_ in c["attempts"]:
                        if bool(np.abs(a_["h"]) > np.asarray(ms, dtype=a_["h"].dtype) * (1 + 8 * eps)):
                            bad("max_step_respected", "a step of |h|=%.6g was attempted with max_step=%.6g" % (abs(float(a_["h"])), ms))
                            break
        # counters, status, events, dense output are those of the underlying system and agree with B
        osys = R.ode_system
        if int(R.nfev) != int(osys.nfev) or int(R.njev) != int(osys.njev) or R.success != osys.success or R.status != osys.integration_status:
            bad("result_fields", "nfev/njev/status/success are not those of the underlying system")
        if R.sol is not osys.sol:
            bad("result_fields", "sol is not the underlying system's dense output")
        if int(R.nfev) != bs["nfev"] or int(R.njev) != bs["njev"]:
            bad("agrees_with_object_api", "counters differ: facade nfev=%d njev=%d, object API nfev=%d njev=%d" % (R.nfev, R.njev, bs["nfev"], bs["njev"]))
        if R.status.split("\n")[0] != bs["status"].split("\n")[0] or bool(R.success) != bs["success"]:
            bad("agrees_with_object_api", "status differs: %r vs %r" % (R.status[:50], bs["status"][:50]))
        ea = [(np.asarray(e.t), np.asarray(e.y), e.event.idx) for e in osys.events]
        if len(ea) != len(bs["events"]) or any(not (bitwise_equal(a_[0], b_[0]) and bitwise_equal(a_[1], b_[1]) and a_[2] == b_[2]) for a_, b_ in zip(ea, bs["events"])):
            bad("agrees_with_object_api", "events differ (%d vs %d)" % (len(ea), len(bs["events"])))
        if scn["system"].get("dense") and osys.sol is not None and B.system.sol is not None and nt >= 2:
            ts = np.asarray(osys.t)
            for fr in (0.13, 0.5, 0.91):
                q = ts[0] + (ts[-1] - ts[0]) * dtype.type(fr)
                if not bitwise_equal(np.asarray(osys.sol(q)), np.asarray(B.system.sol(q))):
                    bad("agrees_with_object_api", "dense output differs at t=%r" % float(q))
                    break
        # closed form / scipy
        fam = gen.method_family(scn["system"]["method"])
        if B.problem.has_exact and fam in ("explicit_adaptive", "implicit_adaptive") and not scn.get("faults") and "terminated" not in bs["status"]:
            k = (fa.get("args") or [1.0])[0] if names[:1] == ["k"] else 1.0
            integ = B.system.integrator
            rtol, atol = float(integ.rtol), float(integ.atol)
            y0 = np.asarray(B.caller_y0_copy, dtype=np.float64)
            tt = np.asarray(osys.t, dtype=np.float64)
            amp = B.problem.amplification(float(tt[0]), float(tt[-1]), k)
            ymax = float(np.max(np.abs(np.asarray(osys.y, dtype=np.float64))))
            nsteps = max(len(tt) - 1, 1)
            bound = 200 * ((atol + rtol * ymax) * nsteps * amp + 64 * eps * ymax * nsteps)
            worst = 0.0
            for i in range(nt):
                ex = B.problem.exact(float(t[i]), float(tt[0]), y0, k=k)
                worst = max(worst, float(np.max(np.abs(np.asarray(y[..., i], dtype=np.float64) - ex))))
            res["ratios"]["C18.solution_to_tolerance"] = max(res["ratios"].get("C18.solution_to_tolerance", 0), worst / bound)
            if worst > bound:
                bad("solution_to_tolerance", "returned states differ from the closed form by %.3e (> %.3e)" % (worst, bound))
            if scn["problem"]["dtype"] == "float64" and scn["seed"] % 4 == 0:
                import scipy.integrate
                prob = B.problem

                def f_sc(tq, yq):
                    return prob.f(tq, np.asarray(yq).reshape(state_shape), k=k).reshape(-1)
                te = None if fa.get("t_eval") is None else np.sort(np.asarray(fa["t_eval"], dtype=np.float64))
                inv = None
                if te is not None:
                    te, inv = np.unique(te, return_inverse=True)        # scipy wants strictly monotone t_eval, along the direction of the span
                    if backward:
                        inv = (len(te) - 1 - inv)[::-1]
                        te = te[::-1]
                sc = scipy.integrate.solve_ivp(f_sc, (float(tt[0]), float(scn["system"]["tf"])), y0.reshape(-1), method="RK45", rtol=max(rtol, 1e-12), atol=atol, t_eval=te)
                if sc.success:
                    if te is not None:
                        ysc = sc.y[:, inv].reshape(state_shape + (-1,))
                        if ysc.shape == y.shape:
                            dsc = float(np.max(np.abs(ysc - np.asarray(y, dtype=np.float64))))
                            b2 = bound + 200 * (atol + rtol * ymax) * max(len(sc.t), 1) * amp
                            res["ratios"]["C18.scipy_parity"] = max(res["ratios"].get("C18.scipy_parity", 0), dsc / b2)
                            if dsc > b2:
                                bad("scipy_parity", "differs from scipy.solve_ivp at t_eval by %.3e (> %.3e)" % (dsc, b2))
                    else:
                        dsc = float(np.max(np.abs(sc.y[:, -1].reshape(state_shape) - np.asarray(y[..., -1], dtype=np.float64))))
                        b2 = bound + 200 * (atol + rtol * ymax) * max(len(sc.t), 1) * amp
                        res["ratios"]["C18.scipy_parity"] = max(res["ratios"].get("C18.scipy_parity", 0), dsc / b2)
                        if dsc > b2:
                            bad("scipy_parity", "final state differs from scipy.solve_ivp by %.3e (> %.3e)" % (dsc, b2))
        return A


PROP = C18()
