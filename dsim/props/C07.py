from .base import Prop
from .. import oracles, events_oracles


class C07(Prop):
    pid = "C07"
    level = "exploration"

    def monitors(self, scn):
        mons = [events_oracles.Events(props=("C07",))]
        if "C07" == "C09":
            mons += [oracles.Structure("C09"), oracles.Dense("C09", accuracy=False)]
        return mons

    def facts(self, scn, viol):
        f = super().facts(scn, viol)
        f["max_scale"] = max([abs(e.get("scale", 1.0)) for e in scn.get("events", [])] or [1.0])
        f["min_scale"] = min([abs(e.get("scale", 1.0)) for e in scn.get("events", [])] or [1.0])
        f["n_integrate_ops"] = len([o for o in scn["ops"] if o["op"] == "integrate"])
        f["has_terminal"] = any(e.get("terminal") for e in scn.get("events", []))
        return f


PROP = C07()
