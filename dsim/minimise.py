"""Delta-debugging minimiser over scenario JSON: shrink while the same oracle still fails."""
import copy
import time


def _fails(prop, scn, oracle):
    from .runner import run_scenario_safe
    r = run_scenario_safe(prop, scn)
    if r["outcome"] in ("harness_error", "budget", "wall"):
        return False
    return any(v["oracle"] == oracle for v in r["violations"])


def _candidates(scn):
    """yield simpler variants, most aggressive first."""
    ops = scn.get("ops", [])
    # drop an op (faults/refs are op-relative: renumber)
    for i in range(len(ops) - 1, -1, -1):
        if len(ops) <= 1:
            break
        c = copy.deepcopy(scn)
        del c["ops"][i]
        nf = []
        for f in c.get("faults", []):
            if f["op"] == i:
                continue
            if f["op"] > i:
                f["op"] -= 1
            nf.append(f)
        c["faults"] = nf
        yield c
    # drop a fault
    for i in range(len(scn.get("faults", []))):
        c = copy.deepcopy(scn)
        del c["faults"][i]
        yield c
    # drop knobs
    for k in list(scn.get("knobs", {})):
        c = copy.deepcopy(scn)
        del c["knobs"][k]
        yield c
    # drop events (and references)
    evs = scn.get("events", [])
    for i in range(len(evs) - 1, -1, -1):
        c = copy.deepcopy(scn)
        del c["events"][i]
        for op in c["ops"]:
            if op.get("events") is not None:
                op["events"] = [j - (j > i) for j in op["events"] if j != i]
                if not op["events"]:
                    op.pop("events")
        yield c
    # drop callbacks / plans
    for i, op in enumerate(ops):
        if op.get("callbacks"):
            c = copy.deepcopy(scn)
            c["ops"][i].pop("callbacks")
            c["ops"][i].pop("plan", None)
            yield c
        if op.get("plan"):
            c = copy.deepcopy(scn)
            c["ops"][i]["plan"] = op["plan"][:len(op["plan"]) // 2]
            yield c
    s = scn["system"]
    # simplify system settings
    if s.get("dense"):
        c = copy.deepcopy(scn)
        c["system"]["dense"] = False
        yield c
    if s.get("jac", "none") != "none":
        c = copy.deepcopy(scn)
        c["system"]["jac"] = "none"
        yield c
    if s.get("kick_mask") is not None:
        c = copy.deepcopy(scn)
        c["system"]["kick_mask"] = None
        yield c
    if (s.get("constants") or {}).get("k", 1.0) != 1.0:
        c = copy.deepcopy(scn)
        c["system"]["constants"]["k"] = 1.0
        yield c
    if scn["problem"].get("dtype", "float64") != "float64":
        c = copy.deepcopy(scn)
        c["problem"]["dtype"] = "float64"
        yield c
    # move faults earlier
    for i, f in enumerate(scn.get("faults", [])):
        if isinstance(f.get("at"), int) and f["at"] > 1:
            for na in (1, f["at"] // 2, f["at"] - 1):
                if na < f["at"]:
                    c = copy.deepcopy(scn)
                    c["faults"][i]["at"] = na
                    yield c
    # shorten the span of the final target
    for key in ("tf",):
        t0, tf = s["t0"], s["tf"]
        mid = round(t0 + (tf - t0) / 2, 6)
        if mid != tf and abs(tf - t0) > 0.2:
            c = copy.deepcopy(scn)
            c["system"]["tf"] = mid
            yield c
    # rounder numbers
    for key in ("t0", "tf", "dt"):
        v = s[key]
        for nv in (float(round(v)), round(v, 1), round(v, 2)):
            if nv != v and not (key == "dt" and nv == 0.0) and not (key in ("t0", "tf") and nv == s["tf" if key == "t0" else "t0"]):
                c = copy.deepcopy(scn)
                c["system"][key] = nv
                yield c
                break


def _same_direction(a, b):
    da = a["system"]["tf"] - a["system"]["t0"]
    db = b["system"]["tf"] - b["system"]["t0"]
    return da * db > 0


def minimise(prop, scn, oracle, budget_s=60):
    t0 = time.time()
    cur = copy.deepcopy(scn)
    cur.pop("expect", None)
    improved = True
    while improved and time.time() - t0 < budget_s:
        improved = False
        for cand in _candidates(cur):
            if time.time() - t0 > budget_s:
                break
            try:
                if _same_direction(cand, cur) and _fails(prop, cand, oracle):
                    cur = cand
                    improved = True
                    break
            except Exception:
                continue
    return cur
