"""Small executable reference models (the oracles' trusted base)."""
import numpy as np


def eps_of(dtype):
    return float(np.finfo(np.dtype(dtype)).eps)


def ref_rk_step(integ, f, t, y, h):
    """Explicit Runge-Kutta step straight from the class tables.

    Returns (dy, K, scale) where scale is the magnitude of the summands (for rounding bounds).
    """
    tabI = np.asarray(integ.tableau_intermediate)
    tabF = np.asarray(integ.tableau_final)
    s = tabI.shape[0]
    dt = y.dtype
    K = []
    scale = float(np.max(np.abs(y))) if y.size else 0.0
    for i in range(s):
        acc = np.zeros_like(y)
        mag = 0.0
        for j in range(i):
            a = tabI[i, 1 + j]
            if a != 0.0:
                acc = acc + a * K[j]
                mag += abs(float(a)) * float(np.max(np.abs(K[j])))
        yi = y + h * acc
        scale = max(scale, float(abs(h)) * mag)
        K.append(np.asarray(f(t + tabI[i, 0] * h, yi), dtype=dt))
    acc = np.zeros_like(y)
    mag = 0.0
    for i in range(s):
        b = tabF[0, 1 + i]
        if b != 0.0:
            acc = acc + b * K[i]
            mag += abs(float(b)) * float(np.max(np.abs(K[i])))
    scale = max(scale, float(abs(h)) * mag)
    # finer split for the rounding bound: the weighted sum itself (relative to |h| sum|b_i||k_i|) and the stage arguments
    # (relative to |y| + |h| sum|a_ij||k_j|, which reach the increment through f's Lipschitz constant times |h|)
    ref_rk_step.last_scales = (float(abs(h)) * mag, scale)
    return h * acc, K, scale


def ref_split_step(integ, f, t, y, h):
    """Drift/kick composition of an explicit splitting method from its 3-column table and kick mask."""
    tab = np.asarray(integ.tableau_intermediate)
    kick = np.asarray(integ.kick_mask)
    drift = 1.0 - kick
    dS = np.zeros_like(y)
    ct = np.array(t, copy=True)
    scale = float(np.max(np.abs(y))) if y.size else 0.0
    for st in range(tab.shape[0]):
        aux = h * np.asarray(f(ct, y + dS), dtype=y.dtype)
        ct = ct + h * tab[st, 1]
        dS = dS + aux * (tab[st, 1] * drift + tab[st, 2] * kick)
        scale = max(scale, float(np.max(np.abs(aux))) * float(max(abs(tab[st, 1]), abs(tab[st, 2]))), float(np.max(np.abs(dS))))
    return dS, scale


def stage_residual(integ_tables, f, t, y, h, K):
    """max_i || K_i - f(t + c_i h, y + h sum_j a_ij K_j) ||_inf for stage slopes K (shape (*dim, s))."""
    tabI = np.asarray(integ_tables)
    s = tabI.shape[0]
    worst = 0.0
    for i in range(s):
        acc = np.sum(K * tabI[i, 1:], axis=-1)
        r = K[..., i] - f(t + tabI[i, 0] * h, y + h * acc)
        worst = max(worst, float(np.max(np.abs(r))))
    return worst


class RefHermite(object):
    """Cubic Hermite on [t0,t1] from end values and end slopes (textbook basis)."""

    def __init__(self, t0, t1, p0, p1, m0, m1):
        self.t0, self.t1, self.p0, self.p1, self.m0, self.m1 = t0, t1, p0, p1, m0, m1

    def __call__(self, tau):
        h = self.t1 - self.t0
        s = (tau - self.t0) / h
        h00 = (1 + 2 * s) * (1 - s) ** 2
        h10 = s * (1 - s) ** 2
        h01 = s * s * (3 - 2 * s)
        h11 = s * s * (s - 1)
        return h00 * self.p0 + h10 * h * self.m0 + h01 * self.p1 + h11 * h * self.m1

    def grad(self, tau):
        h = self.t1 - self.t0
        s = (tau - self.t0) / h
        d00 = 6 * s * s - 6 * s
        d10 = 3 * s * s - 4 * s + 1
        d01 = -6 * s * s + 6 * s
        d11 = 3 * s * s - 2 * s
        return (d00 * self.p0 + d01 * self.p1) / h + d10 * self.m0 + d11 * self.m1

    def scale(self):
        h = abs(float(self.t1 - self.t0))
        return float(np.max(np.abs(self.p0)) + np.max(np.abs(self.p1)) + h * (np.max(np.abs(self.m0)) + np.max(np.abs(self.m1))))


def bitwise_equal(a, b):
    """same shape, dtype and values bit for bit (longdouble padding bytes are not compared)."""
    a = np.asarray(a)
    b = np.asarray(b)
    if a.shape != b.shape or a.dtype != b.dtype:
        return False
    if a.dtype.kind != "f":
        return bool(np.array_equal(a, b))
    return bool(np.array_equal(a, b, equal_nan=True) and np.array_equal(np.signbit(a), np.signbit(b)))


def canon_bytes(a):
    """canonical byte string of an array (longdouble -> exact double-double, no padding bytes)."""
    a = np.ascontiguousarray(a)
    if a.dtype == np.longdouble and a.dtype != np.float64:
        hi = a.astype(np.float64)
        lo = (a - hi.astype(np.longdouble)).astype(np.float64)
        return hi.tobytes() + lo.tobytes()
    return a.tobytes()
