#!/bin/bash
cd /verif
cp evidence/*.json /tmp/evbak/
declare -A N=( [C02]=600 [C03]=12000 [C04]=6000 [C05]=4000 [C06]=10000 [C07]=10000 [C08]=10000 [C09]=6000 [C12]=60 [C13]=3000 [C15]=3000 [C16]=8000 [C18]=5000 [C19]=10000 [C20]=6000 )
for seed in "$@"; do
  for p in C02 C03 C04 C05 C06 C07 C08 C09 C12 C13 C15 C16 C18 C19 C20; do
    VERIF_SEED=$seed timeout 2400 ./check $p --seeds ${N[$p]} --wall-cap 600 > /tmp/ms/cal_${p}_$seed.log 2>&1
    rc=$?
    python3 - <<PY
import json
d=json.load(open('/verif/evidence/$p.json'))
print("seed=$seed $p rc=$rc", json.dumps(d['coverage']['oracle_max_ratio']), d['coverage']['outcomes'])
PY
    grep -A1 '^VIOLATION\|^HARNESS' /tmp/ms/cal_${p}_$seed.log | head -4 | cut -c1-300
  done
done
cp /tmp/evbak/*.json evidence/
