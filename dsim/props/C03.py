from .base import Prop
from .. import oracles


class C03(Prop):
    pid = "C03"
    quick = {"seeds": 6000, "wall_cap": 90, "chunk": 16}
    thorough = {"seeds": 120000, "wall_cap": 1500, "chunk": 32}
    level = "exploration"
    rule = ("one case = one seeded scenario (problem, span of any sign/direction, dt smaller/larger than the span and of either sign, method, dtype, "
            "buffer-cap knob, optional allocator fault) with a history of 1-4 integrate(t) ops; non-trivial = at least one step was recorded; "
            "distinct = distinct canonical scenario JSON")
    assumptions = ["peer programs are smooth and finite; NaN/Inf from the user rhs is not injected",
                   "end-of-span tolerance is 32 eps * max(1,|target|,|start|): the library's own loop-exit window"]

    def monitors(self, scn):
        return [oracles.Structure("C03")]


PROP = C03()
