import json, os, shutil, sys
META = {
 "C19": ("nearest-sample choice by midpoint test (not flipped for decreasing grids)", "backward trajectory, dense_output=False, time lookup not at/before t0", ["C19"], "C19.time_lookup_nearest"),
 "C03": ("per-iteration dt re-orientation moved after `self.dt = new_dt` (inside `if not is_final_step`)", "integrate(t) against the constructor's direction with |dt| larger than the distance to the target: first step goes away from the target, then turns round", ["C03"], "C03.monotone_in_loop"),
 "C20": ("FD Jacobian wrapper re-pointed at a new time with the raw rhs instead of the counting wrapper", "implicit method (or direct jac request) with finite-difference Jacobian requested at t != 0 (t0 != 0, Newton failure mid-run, extended-precision fallback): those rhs calls are missing from nfev", ["C20"], "C20.nfev_exact"),
 "C09": ("events of a step sorted by `roots - t_prev`", "backward integration AND two or more events (one terminal) inside the same step: later terminal event wins / events beyond the stop reported", ["C09"], "C09.only_earliest_terminal"),
 "C06": ("explicit FSAL fast path skips the 'step starts where the last one ended' check", "DOPRI45 only, after re-entering the integrator away from the end of its last step (terminal-event roll-back, event function raising + resume); only the first dense piece after re-entry is wrong", ["C06"], "C06.containing_piece"),
 "C08": ("brentsrootvec bracket update: negated mask no longer restricted to unfinished entries", "two or more events crossing in the same step, the one converging first steep (scale >= 10): its bracket certificate is lost and the crossing dropped", ["C08"], "C08.crossing_reported"),
 "C12": ("final_time/final_state (cache key) set at the end of __call__, final_rhs (cached value) still written by every attempt", "adaptive/implicit RK: a completed-and-rejected attempt followed by the rhs raising during the retry, not in the first step, then resume with dense output: first resumed piece starts with the rejected attempt's end slope", ["C12"], "C12.containing_piece"),
 "C13": ("reset() re-creates the integrator only if status == 1", "run before reset() ended by terminal event or failure (status 2 / exception object) with a method carrying hidden state (implicit: Broyden Jacobian, Newton history), no setter between reset and integrate", ["C13"], "C13.reset_equals_fresh"),
 "C02": ("FSAL 'first stage cached' flag set on a contiguous call and never cleared; compute_step skips stage 0", "DOPRI45 integrator object called from a (t, y) that is not the end of its previous step (restart, reuse, Richardson sub-steps): stale k1", ["C02"], "C02.rk_step_formula"),
 "C07": ("events of a step sorted by `roots - t_prev` (signed offset)", "backward integration AND two different event functions crossing at different times inside the same step: events listed in reverse order; an event beyond a terminal one reported", ["C07"], "C07.ordered"),
 "C18": ("first_step clamp folded into the default argument: an explicit first_step is no longer limited by max_step", "max_step given AND explicit first_step > max_step AND nothing else shortens step 0 (no finely spaced t_eval, controller accepts the step): first recorded step longer than max_step", ["C18"], "C18.max_step_respected"),
 "C16": ("re-initialisation of the FD wrapper keeps the old cached time (`__jac_time = 0.0` slipped inside the 'order is None' guard)", "FD jac(a, y) with a != 0, then unhook_jacobian_call() with nothing hooked, then jac at the same a: Jacobian of rhs(0.0, .) returned", ["C16"], "C16.fd_at_requested_time"),
 "C15": ("newtontrustregion measures the step size only when a trial step is accepted", "first Newton iteration rejects all three trial steps (poor start, near-singular Jacobian, rootless system): dxn stays 0 and the unchanged initial guess is returned with success=True; inherited by nonlinear_roots on both dispatch paths after MINPACK / hybrj fail", ["C15"], "C15.success_means_solution"),
 "C04": ("non-adaptive override `timestep, redo_step = self.dTime, False` removed from inside the retry loop (looks like dead code)", "implicit non-adaptive method AND a stage-solve failure at the requested dt whose 0.8*dt retry converges: the controller's growth proposal (zero error estimate) is returned, later steps are ~2x the requested dt", ["C04"], "C04.never_longer"),
 "C20b": ("dt re-orientation hoisted out of the loop and attached to `self.dt = new_dt`; callbacks run afterwards and assign dt through the setter, which orients along (t0, tf)", "integrate(t) heading against the system's (t0, tf) span AND a callback assigning dt on a non-final step: the next step is taken away from the target", ["C20"], "C20.cb_dt_used"),
 "C13b": ("integrate() re-records __dt0 (the step restored by reset) on the first call of a run, after the 'dt larger than the span' shortening", "first integrate call of a run targets a time closer than dt (short first leg, or a terminal event inside the first step), then reset(), then a longer run: reset restores the shortened step", ["C13"], "C13.reset_equals_fresh"),
 "C06b": ("search_bisection_vec: while-loop replaced by a fixed number of halvings floor(log2(n-1))", "ARRAY queries of the dense output when the number of pieces n has n-1 not a power of two, query strictly inside an 'orphaned' step: answered by the next step's interpolant; scalar queries unaffected", ["C06"], "C06.array_query"),
 "C02b": ("inside the retry loop the fixed-step override now follows the Newton-failure check and clears redo_step", "implicit non-adaptive method whose stage solve fails on the first attempt AND again on the first retry: unconverged stage values handed back as an accepted step", ["C02"], "C02.accepted_unconverged"),
 "C12b": ("clean-up guard around handle_events narrowed from `except BaseException` to `except Exception`", "KeyboardInterrupt raised inside an EVENT function with dense_output=True: the un-recorded step's interpolant stays, duplicate after resume", ["C12"], "C12.coverage"),
 "C03b": ("`else: end_int = True` after a clamped final step", "adaptive/implicit method whose clamped last step is rejected or shortened (rhs gets harder just before the target): loop exits short of the target with status 'completed successfully'", ["C03"], "C03.ends_at_target"),
 "C09b": ("handle_events no longer truncates `roots` at the first terminal event (evs/active_events still are)", "the step in which the terminal event fires contains a further event root after it: roll-back targets the last root of the step; events list still right", ["C09"], "C09.stops_at_event_time"),
 "C05b": ("solver_dict cleaned in place: `system_scaling` survives across steps and is updated as a 0.8/0.2 moving average", "solution shrinking faster than 0.8 per accepted step with rtol*|y| dominating atol (or an oversized rejected first step contaminating the scale): tolerance scale lags, error 1e2..1e4 x the bound, strongest for the high-order pairs", ["C05"], "C05.global_error_local"),
 "C05": ("retry loop guarded by signed comparison `timestep < current_timestep`", "adaptive RK integrating backward with a rejected step (initial dt comparable to the span): rejected step recorded silently, no retry, no error", ["C05"], "C05.global_error"),
}
for pid in sys.argv[1:]:
    what, needs, checks, oracle = META[pid]
    prop_id = pid[:3]
    d = '/verif/seeded/%s-agent' % pid
    os.makedirs(d, exist_ok=True)
    shutil.copy('/tmp/seed_%s.diff' % pid, d + '/patch.diff')
    shutil.copy('/tmp/seedwt/%s/seeded_out/demo.py' % pid, d + '/demo.py')
    if os.path.exists('/tmp/seedwt/%s/seeded_out/notes.md' % pid):
        shutil.copy('/tmp/seedwt/%s/seeded_out/notes.md' % pid, d + '/notes.md')
    with_log = open('/tmp/seed_%s_with.log' % pid).read().strip().splitlines()[-1][:300]
    without_log = open('/tmp/seed_%s_without.log' % pid).read().strip().splitlines()[-1][:300]
    chk = open('/tmp/seedchk_%s.log' % pid).read()
    viol = [l for l in chk.splitlines() if l.startswith('VIOLATION') or l.startswith('  oracle=')][:2]
    meta = {"id": "%s-agent" % pid, "property": prop_id, "author": "independent sub-agent given only the property text and a scratch worktree",
            "change": what, "needs_to_manifest": needs, "checks": checks,
            "confirmed_by_me": {"suite_with_change": "1878 passed (PYTHONPATH=<worktree> pytest -q -p no:cacheprovider --timeout=900 -x -n 6)",
                                "demo_with_change": "exit 1: " + with_log, "demo_without_change": "exit 0: " + without_log},
            "my_check": {"command": "DSIM_REPO=<tree with patch> ./check %s" % prop_id, "result": "exit 1" if viol else "exit 0 (MISSED)", "first_violation": viol, "expected_oracle": oracle}}
    json.dump(meta, open(d + '/meta.json', 'w'), indent=1)
    print(pid, meta["my_check"]["result"])
