from .base import Prop
from .. import oracles, gen


class C05(Prop):
    pid = "C05"
    quick = {"seeds": 1500, "wall_cap": 90, "chunk": 16}
    thorough = {"seeds": 30000, "wall_cap": 1500, "chunk": 32}
    level = "exploration"
    rule = ("one case = one seeded scenario with an adaptive method (embedded pair or Richardson wrapper), either direction, initial dt from "
            "1e-4*span to 3*span, tolerances 1e-3..1e-11 scaled to the method's order; 18% of the explicit cases are long contractions (linear flow shrinking by "
            "e^-8..e^-16 over the span, atol = 1e-10*rtol, high-order pairs taking a few dozen steps); fault-injecting cases add transient rhs spikes "
            "(forcing rejections) and a small retry cap (making exhaustion reachable); non-trivial = at least one recorded step; for the "
            "rejection clauses the evidence counts how many runs actually had a rejected step (probe step_rejected)")
    assumptions = ["accuracy clause: closed-form problems only, error bound K*(atol+rtol*max|y|)*amplification with calibrated K (see calibration.json)",
                   "under injected spikes no accuracy oracle is applied (a spike can be legitimately invisible to the embedded estimator)"]

    def monitors(self, scn):
        return [oracles.RejectionShrinks("C05"), oracles.Accuracy("C05")]


PROP = C05()
