#!/bin/bash
# run every quick check under several VERIF_SEED values; log rc and violations
cd /verif
mkdir -p /tmp/ms
cp evidence/*.json /tmp/evbak/
for seed in "$@"; do
  for p in C02 C03 C04 C05 C06 C07 C08 C09 C12 C13 C15 C16 C18 C19 C20; do
    VERIF_SEED=$seed timeout 1500 ./check $p > /tmp/ms/${p}_$seed.log 2>&1
    echo "seed=$seed $p rc=$? $(grep -A1 '^VIOLATION\|^HARNESS' /tmp/ms/${p}_$seed.log | head -4 | cut -c1-250 | tr '\n' ' ')"
  done
done
cp /tmp/evbak/*.json evidence/
