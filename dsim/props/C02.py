import copy

import numpy as np

from .base import Prop
from ..world import World, _c
from ..peers import SimRHS, Boom, BudgetExceeded, WallTimeout
from ..runner import absorb
from ..refmodels import ref_rk_step, ref_split_step, stage_residual, eps_of, canon_bytes, bitwise_equal
from .. import oracles, gen, seams


class DirectWorld(World):
    """One integrator object driven directly by a history of calls integrator(rhs, t, y, constants, h): contiguous steps,
    restarts from unrelated states, steps of either sign, and rhs faults in between (the object keeps caches across calls)."""

    def build(self):
        import desolver as de
        from ..world import method_class
        self.rhs = SimRHS(self, self.problem)
        self.diff = de.DiffRHS(self.rhs)
        s = self.scn["system"]
        cls = method_class(s["method"])
        kw = dict(dtype=self.problem.dtype, rtol=s.get("rtol"), atol=s.get("atol"))
        self.integ = cls(tuple(self.problem.shape), **kw)
        self.records = []

    def run(self):
        import signal
        old = signal.signal(signal.SIGALRM, self._alarm)
        signal.alarm(int(self.wall_s))
        seams.CURRENT = self
        try:
            self.op_index = -1
            self.op_counts = {}
            self.build()
            dtype = self.problem.dtype
            consts = dict(self.scn["system"].get("constants") or {})
            t_cur = np.asarray(self.scn["system"]["t0"], dtype=dtype)
            y_cur = self.problem.y0()
            for i, op in enumerate(self.scn["ops"]):
                self.op_index = i
                self.op_counts = {}
                self.calls = []
                if op.get("from") == "state":
                    t_cur = np.asarray(op["t"], dtype=dtype)
                    y_cur = np.asarray(op["y"], dtype=np.float64).astype(dtype).reshape(self.problem.shape)
                h = np.asarray(op["h"], dtype=dtype)
                if op.get("h_div"):
                    # a step size that exists only in the state's precision (h/3 is not a float64 number in extended precision)
                    h = np.asarray(h / dtype.type(op["h_div"]), dtype=dtype)
                n0 = len(self.icalls)
                rec = {"op": i, "t": _c(t_cur), "y": _c(y_cur), "h": _c(h), "exc": None, "contiguous": op.get("from") != "state"}
                try:
                    out = self.integ(self.diff, t_cur, y_cur, consts, h)
                    new_dt, (dT, dS) = out
                    rec["dTime"], rec["dState"] = _c(dT), _c(dS)
                    rec["icall"] = [c for c in self.icalls[n0:] if c["depth"] == 0][-1]
                    t_cur = t_cur + dT
                    y_cur = y_cur + dS
                    self.top_icalls_done = self.top_icalls_done
                except (BudgetExceeded, WallTimeout):
                    raise
                except KeyboardInterrupt as e:
                    rec["exc"] = e
                except Exception as e:
                    rec["exc"] = e
                self.records.append(rec)
                self.digest.update(("direct|%d|%s|" % (i, type(rec["exc"]).__name__)).encode())
                if rec.get("dState") is not None:
                    self.digest.update(canon_bytes(rec["dState"]))
        finally:
            seams.CURRENT = None
            signal.alarm(0)
            signal.signal(signal.SIGALRM, old)
        return self


class C02(Prop):
    pid = "C02"
    quick = {"seeds": 300, "wall_cap": 90, "chunk": 4}
    thorough = {"seeds": 6000, "wall_cap": 1500, "chunk": 8}
    level = "fault_enumeration"
    rule = ("every third seed: one integrator OBJECT driven directly by a history of 3-9 calls integrator(rhs, t, y, constants, h) - contiguous steps, "
            "restarts from unrelated states, h of either sign, optional rhs fault in the middle of a call - each returned increment compared with the "
            "reference step (the object keeps caches between calls).  Other seeds: per seed one base scenario: an implicit method (16 classes; float64 -> MINPACK path, longdouble -> built-in dogleg path; FD or user Jacobian; "
            "Newton-cap and retry-cap knobs) or an explicit/splitting method on a random smooth program.  For implicit bases the fault-free run is "
            "executed once to count its stage solves, then ONE DERIVED CASE PER STAGE-SOLVE INDEX n is run with a solver-seam fault placed on solve n "
            "(kinds cycle through forced non-convergence, LinAlgError from the seam, MINPACK failure -> fallback chain, NaN from the stage function), "
            "i.e. the fault position is enumerated exhaustively over the solves of each sampled run (capped at 40 per base).  Non-trivial = at least "
            "one recorded step and, for faulted cases, the fault actually fired; distinct = distinct canonical scenario JSON")
    assumptions = ["the reference step uses the class tables themselves (table correctness is C01, not claimed)",
                   "explicit/splitting step-formula clause is input sampling executed inside the simulator (by-product, labelled as such)",
                   "stage residual bound: 10*desired_tol + 256*eps*(1+max|k|) in max-norm, desired_tol as computed by the integrator (0.5*(atol+rtol*max|y|))"]
    KINDS = ["nonconv", "linalg", "minpack", "fnan"]

    def monitors(self, scn):
        return [oracles.StepValidity("C02")]

    def gen_direct(self, seed):
        r = gen.sub(seed, "direct")
        rp = gen.sub(seed, "problem")
        fams = r.choice([["explicit_fixed"], ["explicit_adaptive"], ["explicit_adaptive"], ["splitting"], ["implicit_fixed", "implicit_adaptive"]])
        method = gen.pick_method(r, fams)
        dtype = r.choice(["float64"] * 4 + ["float32", "longdouble", "longdouble"])
        want = {"separable"} if gen.method_family(method) == "splitting" else None
        prob = gen.gen_problem(rp, dtype=dtype, want=want)
        rbuf = gen.sub(seed, "rhsbuffer")
        use_buffer = gen.method_family(method) == "splitting" and rbuf.random() < 0.35
        if use_buffer:
            prob = gen.gen_problem(rp, family="ballistic", dtype=dtype)
        N = int(np.prod(prob["shape"]))
        rtol = atol = None
        if gen.is_adaptive(method) or gen.is_implicit(method):
            rtol, atol = gen.tolerances(r, method, dtype)
        t0 = gen.rnd(r, -5, 5, 3)
        ops = []
        for j in range(r.randint(3, 9)):
            h = float("%.4g" % (r.choice([1, 1, -1]) * 10 ** r.uniform(-2.5, -0.5)))
            x = r.random()
            if j > 0 and x < 0.4:
                y = [gen.rnd(r, -1.2, 1.2, 3) for _ in range(N)]
                if prob["family"] == "logistic":
                    y = [gen.rnd(r, 0.1, 0.9, 3) for _ in range(N)]
                ops.append({"from": "state", "t": gen.rnd(r, -5, 5, 3), "y": y, "h": h})
            else:
                ops.append({"from": "cont", "h": h})
        scn = {"v": 1, "seed": seed, "profile": "C02", "direct": True, "problem": prob,
               "system": {"t0": t0, "tf": t0 + 1.0, "dt": 0.1, "method": method, "rtol": rtol, "atol": atol, "dense": False, "jac": "none",
                          "constants": {"k": r.choice([1.0, 1.0, gen.rnd(r, 0.5, 1.5, 3)])}},
               "knobs": {}, "events": [], "ops": ops, "faults": []}
        if use_buffer:
            scn["system"]["rhs_buffer"] = True
        rd = gen.sub(seed, "hdiv")
        for op in ops:
            if rd.random() < 0.4:
                op["h_div"] = rd.choice([3, 7, 10])
        rf = gen.sub(seed, "faults")
        if rf.random() < 0.35:
            scn["faults"].append({"op": rf.randrange(len(ops)), "seam": "rhs", "at": rf.randrange(1, 30), "kind": "raise"})
        return scn

    def run_direct(self, scn, res):
        P = "C02"
        w = DirectWorld(scn, monitors=[])
        try:
            w.run()
        finally:
            absorb(res, w)
            res["digest"] = w.hexdigest()
        V = res["violations"]
        consts = dict(scn["system"].get("constants") or {})
        f = lambda t, y: w.problem.f(t, y, **consts)
        done = 0
        for rec in w.records:
            if rec["exc"] is not None:
                injected = any(rec["exc"] is x or rec["exc"].__cause__ is x for x in w.raised)
                if not injected and type(rec["exc"]).__name__ != "FailedToMeetTolerances":
                    V.append({"property": P, "oracle": "C02.direct_call_raises", "op": rec["op"], "detail": "integrator call raised %s: %s" % (type(rec["exc"]).__name__, str(rec["exc"])[:100])})
                continue
            done += 1
            c = rec["icall"]
            integ = c["integ"]
            h = rec["dTime"]
            y0, t0 = rec["y"], rec["t"]
            eps = eps_of(y0.dtype)
            tag = "contiguous" if rec["contiguous"] else "restart from an unrelated state"
            if c["kind"] == "split":
                dy_ref, scale = ref_split_step(integ, f, t0, y0, h)
                bound = 4 * integ.tableau_intermediate.shape[0] * eps * max(scale, 1e-300)
                err = float(np.max(np.abs(dy_ref - rec["dState"])))
                if err > bound:
                    V.append({"property": P, "oracle": "C02.split_step_formula", "op": rec["op"], "detail": "direct call %d (%s, h=%r): |dy - composition| = %.3e > %.3e" % (rec["op"], tag, float(h), err, bound)})
            elif c["kind"] == "rk" and not c["implicit"]:
                dy_ref, K, scale = ref_rk_step(integ, f, t0, y0, h)
                L = w.problem.lipschitz(**consts)
                amp = (1.0 + abs(float(h)) * L) ** min(integ.stages, 8)
                s_dy, s_arg = ref_rk_step.last_scales
                bound = 4 * integ.stages * eps * max(s_dy + abs(float(h)) * L * s_arg * amp, 1e-300)
                err = float(np.max(np.abs(dy_ref - rec["dState"])))
                res["ratios"]["C02.rk_step_formula_direct"] = max(res["ratios"].get("C02.rk_step_formula_direct", 0), err / bound)
                if err > bound:
                    V.append({"property": P, "oracle": "C02.rk_step_formula", "op": rec["op"], "detail": "direct call %d (%s, h=%r, %s): |dy - h*sum(b k)| = %.3e > %.3e" % (rec["op"], tag, float(h), c["cls"], err, bound)})
            elif c["kind"] == "rk":
                K = c["stages"]
                resid = stage_residual(np.asarray(integ.tableau_intermediate), f, t0, y0, h, K)
                desired = 0.5 * abs(float(integ.atol) + float(np.max(np.abs(float(integ.rtol) * y0))))
                kmax = float(np.max(np.abs(K))) if K.size else 0.0
                bound = 10 * desired + 256 * eps * (kmax + 1.0)
                if resid > bound:
                    V.append({"property": P, "oracle": "C02.implicit_stage_residual", "op": rec["op"], "detail": "direct call %d (%s, h=%r, %s): stage residual %.3e > %.3e" % (rec["op"], tag, float(h), c["cls"], resid, bound)})
                last = c["attempts"][-1] if c["attempts"] else None
                if last is not None and last["solves"] and not last["solves"][-1].get("success", False):
                    V.append({"property": P, "oracle": "C02.accepted_unconverged", "op": rec["op"], "detail": "direct call %d returned a step whose stage solve reported failure" % rec["op"]})
        res["nontrivial"] = done >= 2 and (not scn.get("faults") or bool(w.fired))
        fam = gen.method_family(scn["system"]["method"])
        res["state_keys"] = [repr(("direct", fam, scn["problem"]["dtype"], bool(w.fired), any(not r_["contiguous"] for r_ in w.records)))]
        return w

    def generate(self, seed, tier):
        if seed % 3 == 2:
            return [self.gen_direct(seed)]
        base = gen.gen_scenario(seed, "C02")
        out = [base]
        if not gen.is_implicit(base["system"]["method"]):
            return out
        w = World(base, monitors=[])
        try:
            w.run()
        except BaseException:
            return out
        per_op = {}
        for sv in w.solves:
            per_op[sv["op"]] = max(per_op.get(sv["op"], 0), sv["n"])
        r = gen.sub(seed, "faults")
        points = [(op, n) for op, mx in sorted(per_op.items()) for n in range(1, mx + 1)]
        if len(points) > 40:
            points = sorted(r.sample(points, 40))
        if base["problem"]["family"] == "decaymix" and len(points) > 8:
            points = sorted(r.sample(points, 8))        # long runs: the fault-free history is the point of this family
        for j, (op, n) in enumerate(points):
            c = copy.deepcopy(base)
            kind = self.KINDS[(j + seed) % len(self.KINDS)]
            if kind == "minpack":
                if base["problem"]["dtype"] == "longdouble":
                    kind = "nonconv"
                else:
                    # the n-th MINPACK call is made by the n-th front-end solve of a fault-free prefix
                    c["faults"] = [{"op": op, "seam": "minpack", "at": n, "kind": "fail"}]
                    out.append(c)
                    continue
            f = {"op": op, "seam": "solver", "at": n, "kind": kind}
            if kind == "fnan":
                f["fcall"] = 1 + (j % 3)
            c["faults"] = [f]
            out.append(c)
        # persistent failure: every solve of one integrator call fails -> retries exhaust -> error, nothing recorded
        if points and r.random() < 0.5:
            c = copy.deepcopy(base)
            op, n = r.choice(points)
            cap = c["knobs"].get("retry_cap") or 3
            c["knobs"]["retry_cap"] = cap
            c["faults"] = [{"op": op, "seam": "solver", "at": n + j, "kind": "nonconv"} for j in range(cap + 2)]
            out.append(c)
        return out

    def facts(self, scn, viol):
        f = super().facts(scn, viol)
        f["direct"] = bool(scn.get("direct"))
        return f

    def run(self, scn, res):
        if scn.get("direct"):
            return self.run_direct(scn, res)
        w = super().run(scn, res)
        if scn.get("faults"):
            res["nontrivial"] = bool(res["nontrivial"] and w.fired)
        # exhaustion => FailedIntegration <- FailedToMeetTolerances and no row from that call
        for snap in w.snaps:
            if snap["kind"] != "integrate":
                continue
            failed = [c for c in w.icalls if c["op"] == snap["op"] and c["depth"] == 0 and c["ok"] is False and c.get("exc") == "FailedToMeetTolerances"]
            if failed:
                e = snap["exc"]
                if not (e is not None and type(e).__name__ == "FailedIntegration"):
                    res["violations"].append({"property": "C02", "oracle": "C02.exhaustion_raises", "op": snap["op"],
                                              "detail": "stage solves kept failing but integrate raised %r" % (snap["exc_type"],)})
                c = failed[-1]
                from ..refmodels import bitwise_equal
                if c["nested"] == 1 and not (bitwise_equal(snap["t"][-1], c["t0"]) and bitwise_equal(snap["y"][-1], c["y0"])):
                    res["violations"].append({"property": "C02", "oracle": "C02.exhaustion_records_nothing", "op": snap["op"],
                                              "detail": "a row was recorded from an integrator call that failed"})
        return w


PROP = C02()
