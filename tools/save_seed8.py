"""store round-8 sub-agent changes under seeded/<id>-agent/ (run after tools/proc_seed8.sh <id>)"""
import json, os, shutil, sys
META = {
 "C02g": ("splitting integrators reuse the end slope of the previous step as the slope of their first sub-step when the step starts where the last one ended (cache keyed on (t, y) only; new optional parameter of step())", "splitting method AND two consecutive calls on the same integrator, the second starting exactly where the first ended, with the right-hand side changed in between at that point (system.constants assigned between two integrate() calls): the first sub-step after the switch uses the slope of the old constants", "C02.split_step_formula"),
 "C03g": ("'already at the target' early return shares a hoisted closeness threshold eps**0.7 with the event bookkeeping (was the loop's exit tolerance 32 eps)", "a continuing integrate(t) whose target lies between 32 eps and (4 eps)**0.7 from the current time (float64: 7e-15 .. 2.9e-11; float32: 3.8e-6 .. 3.8e-5): returns at once, records nothing, grid ends up to 1e5 rounding units short of the target", "C03.ends_at_target"),
 "C04g": ("dt-larger-than-span guard before the loop measures the distance to self.tf instead of the call's target", "system within one step of its own tf (span completed), then integrate(t) with an explicit target many steps away: dt overwritten with half the distance to the new target, steps of 1.5 instead of 0.1", "C04.never_longer"),
 "C05g": ("controller: total error tolerance clipped from below at D.epsilon(dtype) (absolute floor; cures 0/0 for atol=0 and a component at rest)", "adaptive method on a state of tiny magnitude with atol scaled to match (atol + rtol*|y| < 4 eps: |y| ~ 1e-18, rtol 1e-8, atol 1e-30): every attempt passes the floored tolerance, steps grow at the maximal rate, relative error O(1), no exception", "C05.global_error"),
 "C06g": ("splitting methods evaluate the end slope lazily in dense_output() (same idea as C12d, written against C06: judged by the dense pieces after a failure + resume)", "splitting method with dense output AND the rhs raising exactly at the last evaluation belonging to a step, then resume: step recorded without its piece, queries inside it extrapolate the neighbour", "C06.coverage"),
 "C07g": ("events of a step re-ordered with sorted(zip(order, evs)) - the inverse permutation of the argsort that orders roots and indices", "three or more event functions crossing inside the same step in an order that is a cyclic rotation of the order given (permutation with a cycle of length >= 3): every event of the step is reported with the wrong function", "C07.residual_small"),
 "C08g": ("duplicate window of a repeated crossing made relative to |t| but the exponent kept: eps**0.7 * max(1, |t|)", "time axis far from zero AND the same event function crossing again within eps**0.7*|t| of its last reported crossing (0.03 at |t| = 1e9 in float64, 0.014 at |t| = 1e3 with float32 states): the later crossing is dropped as a duplicate", "C08.crossing_reported"),
 "C09g": ("list of crossings 'met at the start of this call' no longer restricted to records AT the starting point: the last record of every event function is masked for the whole call", "terminal crossing met again at its recorded time by a call that starts elsewhere: (A) rhs raises inside the roll-back re-integration, resume with the same events runs through the event; (B) stop, go back before the event without events, integrate forward with the same event again", "C09.stops_at_event_time"),
 "C12g": ("crossings met at the start of a call are only looked up when the previous call ended with status 2 (terminated by event)", "terminal event fires AND a callback raises on that same (terminal) step, so the failure overwrites the status; integrate() again with the same event object re-detects the crossing it sits on and returns at once, call after call", "C12.resume_completes"),
 "C13g": ("reset() calls equ_rhs.unhook_jacobian_call() ('set up the finite-difference wrapper afresh')", "implicit method AND an analytic Jacobian attached with hook_jacobian_call AND reset() followed by integrate(): falls back to finite differences silently, run differs from a fresh system at 1e-11", "C13.reset_equals_fresh"),
 "C15g": ("'residual already at rounding level' rescue clauses of nonlinear_roots take the rounding level from the dtype of the residual norm instead of the initial guess", "float64 initial guess AND a residual function that evaluates in / returns a narrower dtype (float32, float16) AND a requested tolerance below that noise: stagnated fallback turned into success with residual 2.4e-7 (float32) / 2e-3 (float16) at tol 1e-12", "C15.success_means_solution"),
 "C16g": ("DiffRHS looks the rhs.jac attribute up once in its constructor instead of lazily at the first jac() request", "attribute fun.jac set on the raw function AFTER it was wrapped (DiffRHS(fun) / OdeSystem(fun)) but before the first Jacobian request; or fun.jac present, another Jacobian hooked and unhooked again: finite differences returned instead of the user's Jacobian", "C16.user_jacobian_used"),
 "C18g": ("solve_ivp builds the OdeSystem with positional arguments in the order the keywords were written: atol and rtol swapped (OdeSystem declares rtol before atol)", "solve_ivp with atol != rtol (or only one given): facade integrates with the tolerances exchanged; hidden for |y| ~ 1 and atol = rtol", "C18.agrees_with_object_api"),
 "C19g": ("time lookup with dense output guarded by sol.t_min <= t <= sol.t_max (the extremes of the piece END times: the first step is left out)", "dense_output=True AND a[t] with t strictly inside the first recorded step: nearest recorded sample returned instead of the dense solution", "C19.time_lookup_dense"),
 "C20g": ("DiffRHS.jac memoises the last request (t, y, constants) and answers a repeat before njev is incremented", "two consecutive Jacobian requests at the same (t, y): an implicit step retried after a failed Newton iteration, or repeated direct requests: njev misses them", "C20.njev_exact"),
}
for pid in sys.argv[1:]:
    what, needs, oracle = META[pid]
    prop_id = pid[:3]
    d = '/verif/seeded/%s-agent' % pid
    os.makedirs(d, exist_ok=True)
    shutil.copy('/tmp/seed_%s.diff' % pid, d + '/patch.diff')
    shutil.copy('/tmp/seedwt/%s/seeded_out/demo.py' % pid, d + '/demo.py')
    if os.path.exists('/tmp/seedwt/%s/seeded_out/notes.md' % pid):
        shutil.copy('/tmp/seedwt/%s/seeded_out/notes.md' % pid, d + '/notes.md')
    with_log = open('/tmp/seed_%s_with.log' % pid).read().strip().splitlines()[-1][:300]
    without_log = open('/tmp/seed_%s_without.log' % pid).read().strip().splitlines()[-1][:300]
    chk = open('/tmp/seedchk_%s.log' % pid).read()
    viol = [l for l in chk.splitlines() if l.startswith('VIOLATION') or l.startswith('  oracle=')][:2]
    old = json.load(open(d + '/meta.json')) if os.path.exists(d + '/meta.json') else {}
    meta = {"id": "%s-agent" % pid, "property": prop_id, "round": 8, "author": "independent sub-agent given only the property text and a scratch worktree",
            "change": what, "needs_to_manifest": needs, "checks": [prop_id],
            "confirmed_by_me": {"suite_with_change": "1878 passed (PYTHONPATH=<worktree> pytest -q -p no:cacheprovider --timeout=900 -x -n 6)",
                                "demo_with_change": "exit 1: " + with_log, "demo_without_change": "exit 0: " + without_log},
            "my_check": {"command": "DSIM_REPO=<tree with patch> ./check %s" % prop_id, "result": "exit 1" if viol else "exit 0 (MISSED)", "first_violation": viol, "expected_oracle": oracle}}
    if old.get("history"):
        meta["history"] = old["history"]
    if len(sys.argv) > 2 and False:
        pass
    json.dump(meta, open(d + '/meta.json', 'w'), indent=1)
    print(pid, meta["my_check"]["result"])
