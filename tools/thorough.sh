#!/bin/bash
# run every thorough check once; log rc and violations
cd /verif
mkdir -p /tmp/ms /tmp/evbak
cp evidence/*.json /tmp/evbak/
for seed in "$@"; do
  for p in C02 C03 C04 C05 C06 C07 C08 C09 C12 C13 C15 C16 C18 C19 C20; do
    VERIF_SEED=$seed timeout 3000 ./check $p --tier thorough > /tmp/ms/th_${p}_$seed.log 2>&1
    echo "seed=$seed $p rc=$? $(grep -A1 '^VIOLATION\|^HARNESS' /tmp/ms/th_${p}_$seed.log | head -6 | cut -c1-300 | tr '\n' ' ') :: $(grep "$p thorough:" /tmp/ms/th_${p}_$seed.log | cut -c1-200)"
    cp evidence/$p.json /tmp/ms/th_ev_${p}_$seed.json
  done
done
cp /tmp/evbak/*.json evidence/
