#!/bin/bash
# usage: tools/sweep.sh quick|thorough JOBS SEED...   (works from wherever it lies: fit for `vp run`)
cd "$(dirname "$0")/.." || exit 2
tier=$1; jobs=$2; shift 2
out=/tmp/sweep_$tier; mkdir -p $out
for seed in "$@"; do
  for p in C02 C03 C04 C05 C06 C07 C08 C09 C12 C13 C15 C16 C18 C19 C20; do
    VERIF_SEED=$seed timeout 3000 ./check $p --tier $tier --jobs $jobs > $out/${p}_$seed.log 2>&1
    echo "seed=$seed $p rc=$? $(grep -A1 '^VIOLATION\|^HARNESS' $out/${p}_$seed.log | head -6 | cut -c1-300 | tr '\n' ' ')"
    mkdir -p $out/replays_$seed; cp -r replays/$p $out/replays_$seed/ 2>/dev/null
  done
done
