import numpy as np

from .base import Prop
from ..world import World, _c
from ..peers import SimRHS, SimJac, Boom, BudgetExceeded, WallTimeout
from ..runner import absorb
from ..refmodels import bitwise_equal, eps_of
from .. import gen, seams


class JacWorld(World):
    """A DiffRHS wrapper alone, driven by a history of jac(t,y) / hook / unhook / assign / plain calls."""

    def build(self):
        import desolver as de
        self.rhs = SimRHS(self, self.problem)
        self.jac_peers = {}
        self.attached = None           # reference model: tag of the attached user Jacobian or None
        if self.scn["system"].get("jac") == "attr":
            J = SimJac(self, self.problem, "attr")
            self.jac_peers["attr"] = J
            self.rhs.jac = J
            self.attached = "attr"
        self.diff = de.DiffRHS(self.rhs)
        self.records = []

    def run(self):
        import signal
        old = signal.signal(signal.SIGALRM, self._alarm)
        signal.alarm(int(self.wall_s))
        seams.CURRENT = self
        try:
            self.op_index = -1
            self.op_counts = {}
            self.build()
            for i, op in enumerate(self.scn["ops"]):
                self.op_index = i
                self.op_counts = {}
                self.calls = []
                self.step(i, op)
        finally:
            seams.CURRENT = None
            signal.alarm(0)
            signal.signal(signal.SIGALRM, old)
        return self

    def step(self, i, op):
        k = op["op"]
        d = self.diff
        consts = dict(self.scn["system"].get("constants") or {})
        dtype = self.problem.dtype
        if k == "hook":
            J = SimJac(self, self.problem, op["tag"])
            self.jac_peers[op["tag"]] = J
            d.hook_jacobian_call(J)
            self.attached = op["tag"]
        elif k == "assign":
            J = SimJac(self, self.problem, op["tag"])
            self.jac_peers[op["tag"]] = J
            d.jac = J
            self.attached = op["tag"]
        elif k == "set_order":
            d.set_jac_base_order(op["order"])       # public knob of the finite-difference estimate; no effect while a user Jacobian is attached
        elif k == "unhook":
            d.unhook_jacobian_call()
            # model: the user Jacobian is detached; an rhs that itself carries .jac is picked up again on the next request
            self.attached = "attr" if "attr" in self.jac_peers and getattr(self.rhs, "jac", None) is not None else None
        elif k in ("copy", "deepcopy", "into_system"):
            # the wrapper is copied (OdeSystem copies a DiffRHS it is given); the attached Jacobian must survive
            import copy as _copy
            import desolver as de
            if k == "copy":
                self.diff = _copy.copy(d)
            elif k == "deepcopy":
                # simulated peers hold a reference to the world: deep-copying them is not meaningful, copy the wrapper shallowly
                self.diff = d.__copy__()
            else:
                sysm = de.OdeSystem(d, self.problem.y0(), t=(0.0, 1.0), dt=0.1, constants=dict(consts))
                self.diff = sysm.equ_rhs
        elif k == "call":
            t = np.asarray(op["t"], dtype=dtype)
            y = np.asarray(op["y"], dtype=dtype).reshape(self.problem.shape)
            try:
                d(t, y, **consts)
            except Boom:
                pass
        elif k == "wrapper":
            # the finite-difference wrapper itself on a seeded map R^in_shape -> R^out_shape (non-square, multi-dimensional)
            from desolver.utilities import JacobianWrapper
            fd = op["fd"]
            ish, osh = tuple(fd["in_shape"]), tuple(fd["out_shape"])
            n, m = int(np.prod(ish)), int(np.prod(osh))
            hdim = len(fd["b"])
            W1 = np.asarray(fd["W1"], dtype=np.float64).reshape(hdim, n).astype(dtype)
            W2 = np.asarray(fd["W2"], dtype=np.float64).reshape(m, hdim).astype(dtype)
            b = np.asarray(fd["b"], dtype=np.float64).astype(dtype)
            lin = bool(fd.get("linear"))
            w = self

            buf = np.zeros(osh, dtype=dtype) if op.get("buffered") else None

            def h(y, **kw):
                w.peer_call("F")
                z = W1 @ np.asarray(y).reshape(-1) + b
                val = (W2 @ (z if lin else np.tanh(z))).reshape(osh)
                if buf is not None:
                    # a function that writes into a preallocated work array and returns that same array on every call
                    buf[...] = val
                    return buf
                return val
            y = np.asarray(op["y"], dtype=np.float64).astype(dtype).reshape(ish)
            z = W1 @ y.reshape(-1) + b
            dz = np.ones_like(z) if lin else (1 - np.tanh(z) ** 2)
            want = ((W2 * dz[None, :]) @ W1).reshape(osh + ish)
            rec = {"op": i, "wrapper": True, "want": want, "linear": lin, "base_order": op["base_order"], "exc": None, "out": None}
            try:
                jw = JacobianWrapper(h, base_order=op["base_order"], flat=False, sample_input=y)
                rec["out"] = jw(y)
            except (BudgetExceeded, WallTimeout):
                raise
            except Exception as e:
                rec["exc"] = e
            self.records.append(rec)
        elif k == "jac":
            t = np.asarray(op["t"], dtype=dtype)
            y = np.asarray(op["y"], dtype=dtype).reshape(self.problem.shape)
            rec = {"op": i, "t": t, "y": y, "attached": self.attached, "njev0": int(d.njev), "nfev0": int(d.nfev), "rhs0": self.rhs.completed,
                   "peer_calls0": {tag: J.calls for tag, J in self.jac_peers.items()}, "exc": None, "out": None}
            try:
                rec["out"] = d.jac(t, y, **consts)
            except (BudgetExceeded, WallTimeout):
                raise
            except KeyboardInterrupt as e:
                rec["exc"] = e
            except Exception as e:
                rec["exc"] = e
            rec["njev1"] = int(d.njev)
            rec["nfev1"] = int(d.nfev)
            rec["rhs1"] = self.rhs.completed
            rec["calls"] = list(self.calls)
            rec["peer_calls1"] = {tag: J.calls for tag, J in self.jac_peers.items()}
            rec["fired"] = [f for f in self.fired if f["fault"]["op"] == i]
            self.records.append(rec)
            self.digest.update(("jac|%d|%s|%s|" % (i, rec["attached"], type(rec["exc"]).__name__)).encode())
            if rec["out"] is not None:
                from ..refmodels import canon_bytes
                self.digest.update(canon_bytes(np.asarray(rec["out"])))
        else:
            raise ValueError(k)


class C16(Prop):
    pid = "C16"
    level = "exploration"
    quick = {"seeds": 3000, "wall_cap": 90, "chunk": 16}
    thorough = {"seeds": 60000, "wall_cap": 1500, "chunk": 32}
    rule = ("one case = one seeded history of 3-12 ops on a DiffRHS wrapper {jac(t,y) at seeded points with repeated and changing t, hook_jacobian_call(J_i), "
            "unhook_jacobian_call(), rhs.jac = J_i, construction from an rhs that itself carries .jac, plain rhs calls, copying the wrapper (copy.copy / handing it to an OdeSystem, which copies it), and the finite-difference wrapper itself on seeded non-square / multi-dimensional maps R^n -> R^m with base orders 2-7} with optional rhs faults raised "
            "DURING a finite-difference evaluation; programs are random smooth (deliberately non-symmetric Jacobians, multi-dimensional states), linear "
            "ones included.  The same wrapper is also exercised in situ by every implicit integration of C02/C12/C20.  Non-trivial = at least two jac "
            "requests were answered; distinct = distinct canonical scenario JSON")
    assumptions = ["reference model of the dispatch state: attached in {None, tag}; after unhook an rhs carrying its own .jac is attached again",
                   "finite-difference accuracy: |J - J_analytic| <= 5e-9*(1+|J|) for smooth programs (calibrated: >= 10x the largest error observed on the unchanged tree, ratio in evidence), 5e-11*(1+|J|) for linear programs",
                   "the rhs calls of one request must all be at the requested t and within 1+|y| of the requested y"]

    def generate(self, seed, tier):
        r = gen.sub(seed, "ops")
        rp = gen.sub(seed, "problem")
        dtype = r.choice(["float64"] * 7 + ["float32", "longdouble"])
        prob = gen.gen_problem(rp, family=r.choice(["smoothnet", "smoothnet", "linear", "logistic", "cosdecay", "duffing", "pendulum"]), dtype=dtype)
        N = int(np.prod(prob["shape"]))
        scn = {"v": 1, "seed": seed, "profile": "C16", "problem": prob,
               "system": {"jac": "attr" if r.random() < 0.2 else "none", "constants": {"k": r.choice([1.0, 1.0, gen.rnd(r, 0.5, 1.5, 3)])},
                          "t0": 0.0, "tf": 1.0, "dt": 0.1, "method": None, "dense": False},
               "knobs": {}, "events": [], "ops": [], "faults": []}
        ops = []
        tcur = gen.rnd(r, -3, 3, 3)
        tag = 0
        for j in range(r.randint(3, 12)):
            x = r.random()
            if x < 0.55:
                if r.random() < 0.6:
                    tcur = r.choice([0.0, gen.rnd(r, -5, 5, 3), tcur + 0.25, tcur])
                y = [gen.rnd(r, -1.5, 1.5, 3) * r.choice([1.0, 1.0, 1e-3, 10.0]) for _ in range(N)]
                if prob["family"] == "logistic":
                    y = [gen.rnd(r, 0.05, 0.95, 3) for _ in range(N)]
                if r.random() < 0.15:
                    y[r.randrange(N)] = 0.0
                ops.append({"op": "jac", "t": tcur, "y": y})
            elif x < 0.68:
                tag += 1
                ops.append({"op": "hook", "tag": "J%d" % tag})
            elif x < 0.78:
                tag += 1
                ops.append({"op": "assign", "tag": "J%d" % tag})
            elif x < 0.90:
                ops.append({"op": "unhook"})
            elif x < 0.92:
                ops.append({"op": "set_order", "order": r.choice([3, 5, 7])})
            elif x < 0.94:
                ops.append({"op": "call", "t": gen.rnd(r, -5, 5, 3), "y": [gen.rnd(r, -1, 1, 3) for _ in range(N)]})
            elif x < 0.975:
                ops.append({"op": r.choice(["copy", "into_system", "into_system"])})
            else:
                ish = r.choice([[1], [2], [3], [4], [2, 2], [3, 2]])
                osh = r.choice([[1], [2], [3], [5], [2, 3], [2, 1, 2]])
                n_, m_ = int(np.prod(ish)), int(np.prod(osh))
                hd = r.choice([2, 3, 4])
                ops.append({"op": "wrapper", "buffered": bool(r.random() < 0.3), "base_order": r.choice([2, 3, 4, 5, 5, 7]),
                            "fd": {"in_shape": ish, "out_shape": osh, "W1": [gen.rnd(r, -1, 1, 3) for _ in range(hd * n_)],
                                   "W2": [gen.rnd(r, -1, 1, 3) for _ in range(m_ * hd)], "b": [gen.rnd(r, -0.5, 0.5, 3) for _ in range(hd)],
                                   "linear": bool(r.random() < 0.3)},
                            "y": [gen.rnd(r, -1.5, 1.5, 3) * r.choice([1.0, 1.0, 1e-3, 10.0]) for _ in range(n_)]})
        if not any(o["op"] == "jac" for o in ops):
            ops.append({"op": "jac", "t": 0.5, "y": [0.3] * N})
        ops.append({"op": "jac", "t": ops[-1].get("t", 0.25) if ops[-1]["op"] == "jac" else 0.75, "y": [gen.rnd(r, -1, 1, 3) for _ in range(N)] if prob["family"] != "logistic" else [0.4] * N})
        scn["ops"] = ops
        rf = gen.sub(seed, "faults")
        if rf.random() < 0.3:
            jops = [i for i, o in enumerate(ops) if o["op"] == "jac"]
            scn["faults"].append({"op": rf.choice(jops), "seam": "rhs", "at": rf.randrange(1, 40), "kind": "raise"})
        return [scn]

    def facts(self, scn, viol):
        return {"method": None, "method_family": None, "direction": None, "dense": False, "dtype": scn["problem"].get("dtype"), "events": False,
                "jac": scn["system"].get("jac"), "has_faults": bool(scn.get("faults")), "family": scn["problem"]["family"],
                "has_unhook": any(o["op"] == "unhook" for o in scn["ops"])}

    def run(self, scn, res):
        P = "C16"
        w = JacWorld(scn, monitors=[])
        try:
            w.run()
        finally:
            absorb(res, w)
            res["digest"] = w.hexdigest()
        V = res["violations"]

        def bad(oracle, detail, op):
            V.append({"property": P, "oracle": P + "." + oracle, "detail": detail, "op": op})

        answered = 0
        dtype = w.problem.dtype
        eps = eps_of(dtype)
        consts = dict(scn["system"].get("constants") or {})
        for rec in w.records:
            i = rec["op"]
            if rec.get("wrapper"):
                if rec["exc"] is not None:
                    bad("wrapper_answers", "JacobianWrapper(base_order=%d) raised %s: %s" % (rec["base_order"], type(rec["exc"]).__name__, str(rec["exc"])[:80]), i)
                    continue
                answered += 1
                out, want = np.asarray(rec["out"]), rec["want"]
                if out.shape != want.shape:
                    bad("layout", "JacobianWrapper returned shape %r, expected (*f.shape, *y.shape) = %r" % (out.shape, want.shape), i)
                    continue
                Jn = float(np.max(np.abs(want))) if want.size else 0.0
                err = float(np.max(np.abs(out.astype(np.float64) - want.astype(np.float64))))
                base = {"float32": 5e-2, "float64": 5e-9, "longdouble": 5e-9}[scn["problem"]["dtype"]]
                if rec["linear"]:
                    base = {"float32": 2e-3, "float64": 5e-11, "longdouble": 5e-11}[scn["problem"]["dtype"]]
                tol = base * (1.0 + Jn)
                name = "fd_wrapper_linear" if rec["linear"] else "fd_wrapper_accuracy"
                res["ratios"][P + "." + name] = max(res["ratios"].get(P + "." + name, 0), err / tol)
                if err > tol:
                    bad(name, "JacobianWrapper(base_order=%d) on R^%r -> R^%r: |J_fd - J| = %.3e > %.3e" % (rec["base_order"], want.shape[len(want.shape) - len(np.shape(rec["out"])) + 0:], want.shape, err, tol), i)
                continue
            t, y = rec["t"], rec["y"]
            if rec["exc"] is not None:
                injected = any(rec["exc"] is x for x in w.raised)
                if not injected:
                    bad("request_answered", "jac(t=%r) raised %s: %s (attached=%s)" % (float(t), type(rec["exc"]).__name__, str(rec["exc"])[:80], rec["attached"]), i)
                elif rec["njev1"] != rec["njev0"]:
                    bad("njev_counts_requests", "a Jacobian request that raised was counted", i)
                continue
            answered += 1
            out = rec["out"]
            if rec["njev1"] != rec["njev0"] + 1:
                bad("njev_counts_requests", "njev went %d -> %d for one request" % (rec["njev0"], rec["njev1"]), i)
            want = w.problem.jac(t, y, **consts)
            rhs_calls = [c for c in rec["calls"] if c["seam"] == "rhs"]
            jac_calls = [c for c in rec["calls"] if c["seam"] == "jac"]
            if rec["attached"] is not None:
                peer = w.jac_peers[rec["attached"]]
                mine = [c for c in jac_calls if c["tag"] == rec["attached"]]
                if len(jac_calls) != 1 or len(mine) != 1:
                    bad("user_jacobian_used", "user Jacobian %s attached, but the request called %s" % (rec["attached"], [c["tag"] for c in jac_calls] or "no user Jacobian"), i)
                    continue
                c = mine[0]
                if not (bitwise_equal(c["t"], t) and bitwise_equal(c["y"], y)):
                    bad("user_jacobian_args", "user Jacobian called with (t,y) different from the request", i)
                if c["kw"] != consts:
                    bad("user_jacobian_args", "user Jacobian called with kwargs %r instead of %r" % (c["kw"], consts), i)
                if rhs_calls:
                    bad("user_jacobian_used", "%d rhs calls made although a user Jacobian is attached" % len(rhs_calls), i)
                if not (np.shape(out) == np.shape(want) and bitwise_equal(np.asarray(out), np.asarray(want))):
                    bad("user_jacobian_returned", "returned value is not the attached Jacobian's return value", i)
            else:
                if jac_calls:
                    bad("detached_uses_fd", "no user Jacobian attached but %s was called" % [c["tag"] for c in jac_calls], i)
                    continue
                if not rhs_calls:
                    bad("detached_uses_fd", "no user Jacobian attached and no rhs call made", i)
                    continue
                ynorm = float(np.max(np.abs(y))) if y.size else 0.0
                for c in rhs_calls:
                    if not bool(np.asarray(c["t"], dtype=np.longdouble) == np.asarray(t, dtype=np.longdouble)):
                        bad("fd_at_requested_time", "finite differences evaluated the rhs at t=%r, requested t=%r" % (float(c["t"]), float(t)), i)
                        break
                    if float(np.max(np.abs(c["y"] - y))) > 1.0 * (1.0 + ynorm):
                        bad("fd_at_requested_state", "finite differences evaluated the rhs %.3e away from the requested state" % float(np.max(np.abs(c["y"] - y))), i)
                        break
                    if c["kw"] != consts:
                        bad("fd_passes_constants", "rhs called with kwargs %r instead of %r" % (c["kw"], consts), i)
                        break
                if rec["nfev1"] - rec["nfev0"] != rec["rhs1"] - rec["rhs0"]:
                    bad("nfev_counts_fd_calls", "nfev moved by %d but %d rhs calls completed" % (rec["nfev1"] - rec["nfev0"], rec["rhs1"] - rec["rhs0"]), i)
                if np.shape(out) != np.shape(want):
                    bad("layout", "Jacobian shape %r, expected %r" % (np.shape(out), np.shape(want)), i)
                    continue
                Jn = float(np.max(np.abs(want))) if np.size(want) else 0.0
                err = float(np.max(np.abs(np.asarray(out, dtype=np.float64) - np.asarray(want, dtype=np.float64))))
                if w.problem.linear or scn["problem"]["family"] == "linear":
                    tol = {"float32": 2e-3, "float64": 5e-11, "longdouble": 5e-11}[scn["problem"]["dtype"]] * (1.0 + Jn)
                    name = "fd_linear_rounding"
                else:
                    tol = {"float32": 5e-2, "float64": 5e-9, "longdouble": 5e-9}[scn["problem"]["dtype"]] * (1.0 + Jn)
                    name = "fd_accuracy"
                res["ratios"][P + "." + name] = max(res["ratios"].get(P + "." + name, 0), err / tol)
                if err > tol:
                    # distinguish a transposed / permuted layout from an inaccurate one
                    wt = np.asarray(want, dtype=np.float64)
                    nd = wt.ndim // 2
                    tr = np.transpose(wt, list(range(nd, 2 * nd)) + list(range(nd)))
                    if np.shape(tr) == np.shape(out) and float(np.max(np.abs(np.asarray(out, dtype=np.float64) - tr))) <= tol:
                        bad("layout", "Jacobian is transposed: entry [i...,j...] is d f_j / d y_i", i)
                    else:
                        bad(name, "|J_fd - J| = %.3e > %.3e (t=%r, family %s)" % (err, tol, float(t), scn["problem"]["family"]), i)
        res["nontrivial"] = answered >= 2
        f = self.facts(scn, None)
        res["state_keys"] = [repr((f["family"], f["dtype"], f["jac"], f["has_unhook"], bool(w.fired), tuple(sorted(set(o["op"] for o in scn["ops"])))))]
        return w


PROP = C16()
