from .base import Prop
from .. import oracles, events_oracles


class C08(Prop):
    pid = "C08"
    quick = {"seeds": 4000, "wall_cap": 90, "chunk": 16}
    thorough = {"seeds": 80000, "wall_cap": 1500, "chunk": 32}
    level = "exploration"
    rule = ("one case = one seeded scenario on harmonic-oscillator problems with 1-6 simultaneous events g = s*(h - c), s over 10^-6..10^6, every method "
            "family, both directions, dense on/off, float64 mostly (float32/longdouble 10% each), buffer-cap knob 1-3 so that events trigger buffer growth, "
            "callback-scheduled boundaries on/next to roots.  The in-loop monitor runs after EVERY accepted step.  Non-trivial = at least one accepted step "
            "showed a strict sign change of a monitored function (probe sign_change_steps counts them)")
    assumptions = ["only strict sign changes between two consecutive recorded rows are required to be reported (two roots inside one step are not)",
                   "the event must lie in the closed step interval +- 4 eps"]

    def monitors(self, scn):
        mons = [events_oracles.Events(props=("C08",))]
        if "C08" == "C09":
            mons += [oracles.Structure("C09"), oracles.Dense("C09", accuracy=False)]
        return mons

    def facts(self, scn, viol):
        f = super().facts(scn, viol)
        f["max_scale"] = max([abs(e.get("scale", 1.0)) for e in scn.get("events", [])] or [1.0])
        f["min_scale"] = min([abs(e.get("scale", 1.0)) for e in scn.get("events", [])] or [1.0])
        f["n_integrate_ops"] = len([o for o in scn["ops"] if o["op"] == "integrate"])
        f["has_terminal"] = any(e.get("terminal") for e in scn.get("events", []))
        return f


PROP = C08()
