"""regenerate section 10.1 (seeded changes) and 10.2 (mutants) of DESIGN.md from seeded/*/meta.json and mutants/results.json"""
import json, glob
s = open('/verif/DESIGN.md').read()
rows = []
for d in sorted(glob.glob('/verif/seeded/*-agent')):
    m = json.load(open(d + '/meta.json'))
    rows.append((m['id'], m['property'], m['change'], m['needs_to_manifest'], m['my_check']['expected_oracle'], ('missed at first; caught after strengthening (see meta.json history)' if m.get('history') else 'caught') + ('; since neutralised by a later fix (the change no longer breaks the property, see meta.json)' if m.get('neutralised_by') else '') + ('; patch rebased after a later fix touched the same lines' if m.get('rebased') else '')))
n_missed = sum(1 for r in rows if r[5].startswith('missed'))
out = ["### 10.1 Independently seeded changes (sub-agents: property text + scratch worktree only)", "",
       "Every change below was confirmed by me in a scratch worktree before it was kept: the pinned suite passes with it (1878 passed), the agent's demonstration fails with it and passes without it. `seeded/<id>/` holds patch.diff, demo.py, notes.md and meta.json (what I ran, first violation reported). `./selftest seeded` re-applies each patch to a copy of /repo's HEAD and expects the property's quick check to exit 1.", "",
       "%d changes over nine rounds (later rounds were told which ideas were already taken; the fifth and sixth rounds were pointed at the clauses of each property that no earlier change or mutant had touched, the seventh to ninth were free to pick any mechanism not yet used): %d caught by the check as it stood, %d missed at first and caught after the check was strengthened." % (len(rows), len(rows) - n_missed, n_missed), "",
       "| id | property | change | needs, to manifest | reported by oracle | outcome |", "|---|---|---|---|---|---|"]
for r in rows:
    out.append("| %s | %s | %s | %s | `%s` | %s |" % r)
out += ["", "What the misses led to (details in the `history` field of each meta.json):", ""]
for d in sorted(glob.glob('/verif/seeded/*-agent')):
    m = json.load(open(d + '/meta.json'))
    if m.get('history'):
        out.append("* **%s**: %s" % (m['id'], m['history']))
out.append("")
a = s.index("### 10.1 Independently seeded changes")
b = s.index("### 10.2 Mutants written by me")
s = s[:a] + "\n".join(out) + "\n" + s[b:]
res = json.load(open('/verif/mutants/results.json'))
rows2 = ["### 10.2 Mutants written by me (`mutants/mutants.json`, results in `mutants/results.json`)", "",
         "| mutant | properties checked | what it does | result |", "|---|---|---|---|"]
for o in res['results']:
    rows2.append("| %s | %s | %s | %s |" % (o['name'], ", ".join(o['properties']), o['note'], o['result']))
rows2 += ["", res['comment'], ""]
s = s[:s.index("### 10.2 Mutants written by me")] + "\n".join(rows2)
open('/verif/DESIGN.md', 'w').write(s)
print(len(rows), n_missed)
