from .base import Prop
from .. import oracles, gen


class C20(Prop):
    pid = "C20"
    quick = {"seeds": 4000, "wall_cap": 90, "chunk": 16}
    thorough = {"seeds": 80000, "wall_cap": 1500, "chunk": 32}
    level = "fault_enumeration"
    rule = ("one case = one seeded history (1-4 ops from integrate(t)/set tol/reset) over every method family, with/without events (incl. terminal "
            "rollback), dense output, ordered callback lists (observer and dt-scheduler), and 0-2 faults (rhs raise / KeyboardInterrupt / spike, "
            "callback raise, event raise, forced Newton non-convergence, Jacobian raise); counters are compared with the peers' own completed-call "
            "counts after EVERY recorded step (in-loop monitor) and after every op; non-trivial = at least one recorded step; the same oracle is "
            "also asserted at every enumerated crash point of the C12 check")
    assumptions = ["njev may count Jacobian requests since construction or since the last reset (the statement does not say reset() zeroes it)",
                   "a dt assigned by a callback may only be altered by the final-step clamp to target - t"]

    def monitors(self, scn):
        return [oracles.Counters("C20")]

    def generate(self, seed, tier):
        if seed % 16 != 3:
            return [gen.gen_scenario(seed, "C20")]
        # crash-point enumeration of a short history (the C12 generator), judged by the counter oracles
        from .C12 import PROP as C12P
        out = []
        for scn in C12P.generate(seed, "quick"):
            scn = dict(scn)
            scn["profile"] = "C20"
            out.append(scn)
        return out[:80]


PROP = C20()
