#!/bin/bash
# verify a seeded change without git stash (shared between worktrees!): reverse-apply the patch instead
P=$1
W=/tmp/seedwt/$P
cd $W || exit 1
git diff HEAD -- desolver > /tmp/seed_$P.diff
echo "== $P: $(git status --short | grep -v seeded_out | grep -v FOREIGN | tr '\n' ' ')"
PYTHONPATH=$W timeout 900 /venv/bin/python seeded_out/demo.py > /tmp/seed_${P}_with.log 2>&1; echo "demo WITH change exit=$? : $(tail -1 /tmp/seed_${P}_with.log | cut -c1-200)"
git apply -R /tmp/seed_$P.diff
PYTHONPATH=$W timeout 900 /venv/bin/python seeded_out/demo.py > /tmp/seed_${P}_without.log 2>&1; echo "demo WITHOUT change exit=$? : $(tail -1 /tmp/seed_${P}_without.log | cut -c1-200)"
git apply /tmp/seed_$P.diff
echo "suite: $(PYTHONPATH=$W timeout 2400 /venv/bin/python -m pytest -q -p no:cacheprovider --timeout=900 -x -n 6 2>&1 | grep -E 'passed|failed' | tail -1)"
