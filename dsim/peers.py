"""Simulated peers: right-hand side, Jacobian, event functions, callbacks.

Peers are the only things the system under simulation talks to.  Every call is logged with a
global sequence number, charged against the world's deterministic budget, and may be turned
into a fault by the world's fault table (positions are relative to the current op).
"""
import numpy as np


class BudgetExceeded(BaseException):
    """Deterministic peer-call budget exhausted (BaseException: integrate() cannot swallow it)."""


class WallTimeout(BaseException):
    """SIGALRM backstop."""


class Boom(Exception):
    """Injected peer failure."""

    def __init__(self, tag):
        super().__init__("injected fault %s" % (tag,))
        self.tag = tag


class SimRHS(object):
    def __init__(self, world, problem):
        self.world = world
        self.problem = problem
        self.started = 0
        self.completed = 0

    def __call__(self, t, y, **kw):
        w = self.world
        self.started += 1
        k = w.peer_call("rhs")
        rec = w.log_call("rhs", t, y, kw)
        flt = w.fault_for("rhs", k)
        if flt is not None and flt["kind"] in ("raise", "kbdint"):
            w.fire(flt)
            raise w.make_exc(flt)
        val = self.problem.f(t, y, **kw)
        if flt is not None and flt["kind"] == "spike":
            w.fire(flt)
            if flt.get("amp") == "nan":
                val = val * np.asarray(np.nan, dtype=val.dtype)          # the model leaves its domain for a while: non-finite slopes
            else:
                val = val + np.asarray(flt.get("amp", 1e3), dtype=val.dtype) * (1.0 + np.abs(val))
        self.completed += 1
        if not getattr(w, "foreign", False):
            w.rhs_completed += 1
        if rec is not None:
            rec["done"] = True
        if w.scn["system"].get("rhs_buffer"):
            # a right-hand side program that owns its output array: allocated once, entries rewritten only when their value changes
            # (constant entries are set once), and the SAME array is returned by every call
            if getattr(self, "_buf", None) is None or self._buf.shape != val.shape or self._buf.dtype != val.dtype:
                self._buf = np.array(val, copy=True)
                self._last = np.array(val, copy=True)
            else:
                changed = ~((val == self._last) | (np.isnan(val) & np.isnan(self._last)))
                self._buf[changed] = val[changed]
                self._last = np.array(val, copy=True)
            return self._buf
        return val


class SimJac(object):
    """User-supplied Jacobian peer (analytic Jacobian of the same program)."""

    def __init__(self, world, problem, tag="J"):
        self.world = world
        self.problem = problem
        self.tag = tag
        self.calls = 0
        self.last_return = None

    def __call__(self, t, y, **kw):
        w = self.world
        self.calls += 1
        k = w.peer_call("jac")
        w.log_call("jac", t, y, kw, tag=self.tag)
        flt = w.fault_for("jac", k)
        if flt is not None and flt["kind"] in ("raise", "kbdint"):
            w.fire(flt)
            raise w.make_exc(flt)
        out = self.problem.jac(t, y, **kw)
        self.last_return = out
        w.jac_completed += 1
        return out


class SimEvent(object):
    """g = scale * (h(t, y[, dy]) - c);  h is a state component, the time, or a slope component."""

    def __init__(self, world, idx, desc):
        self.world = world
        self.idx = idx
        self.desc = desc
        self.kind = desc["kind"]
        self.comp = desc.get("comp", 0)
        self.c = desc["c"]
        self.scale = desc.get("scale", 1.0)
        self.direction = desc.get("direction", 0)
        self.is_terminal = bool(desc.get("terminal", False))
        self.requires_dstate = self.kind == "dstate"
        self.calls = 0

    def g(self, t, y, dy=None):
        """mathematical event function (uncounted)."""
        if self.kind == "state":
            h = np.asarray(y).reshape(-1)[self.comp]
        elif self.kind == "time":
            h = np.asarray(t)
        elif self.kind == "tsin":
            # periodic pure-time event: sin(w (t - c0)) with exactly known roots c0 + n pi / w  (c plays the role of the level, 0 here)
            h = np.sin(self.desc["w"] * (np.asarray(t) - self.desc["c0"]))
        else:
            h = np.asarray(dy).reshape(-1)[self.comp]
        return self.scale * (h - self.c)

    def __call__(self, t, y, *a, **kw):
        w = self.world
        self.calls += 1
        k = w.peer_call("event")
        flt = w.fault_for("event", k)
        w.log_call("event", t, None, kw, tag=self.idx)
        if flt is not None and flt["kind"] in ("raise", "kbdint"):
            w.fire(flt)
            raise w.make_exc(flt)
        if self.requires_dstate:
            return self.g(t, y, a[0])
        return self.g(t, y)

    def __repr__(self):
        return "<SimEvent %d %s>" % (self.idx, self.kind)
