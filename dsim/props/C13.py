import copy

import numpy as np

from .base import Prop
from ..world import World
from ..runner import absorb
from ..refmodels import bitwise_equal, eps_of
from .. import oracles, gen
from .C12 import events_prefix


def snaps_equal(a, b, with_status=True):
    """bitwise comparison of every observable of two snapshots; returns None or a description."""
    if not (bitwise_equal(a["t"], b["t"]) and bitwise_equal(a["y"], b["y"])):
        return "rows differ (%d vs %d rows)" % (a["n"], b["n"])
    if len(a["events"]) != len(b["events"]) or not events_prefix(a["events"], b["events"]):
        return "events differ (%d vs %d)" % (len(a["events"]), len(b["events"]))
    if not bitwise_equal(a["dt"], b["dt"]):
        return "dt differs (%r vs %r)" % (float(a["dt"]), float(b["dt"]))
    if with_status and (a["status"].split("\n")[0] != b["status"].split("\n")[0] or a["success"] != b["success"]):
        return "status differs (%r vs %r)" % (a["status"][:50], b["status"][:50])
    if (a["exc_type"] or "") != (b["exc_type"] or ""):
        return "outcome differs (%s vs %s)" % (a["exc_type"], b["exc_type"])
    sa, sb = a.get("sol_probe"), b.get("sol_probe")
    if (sa is None) != (sb is None) or (sa is not None and not bitwise_equal(sa, sb)):
        return "dense output differs"
    return None


class SolProbe(oracles.Monitor):
    """records sol at fixed probe points inside the recorded range after every op (for twin comparison)."""

    def after_op(self, world, i, op, pre, snap):
        sol = world.system.sol
        snap["sol_probe"] = None
        if sol is None or sol.t_eval is None or snap["n"] < 2:
            return
        t = snap["t"]
        pts = [t[0] + (t[-1] - t[0]) * t.dtype.type(fr) for fr in (0.0, 0.17, 0.5, 0.77, 1.0)]
        try:
            snap["sol_probe"] = np.stack([np.asarray(sol(p)) for p in pts])
        except Exception as e:
            snap["sol_probe"] = np.asarray([hash(type(e).__name__) % 1000], dtype=np.float64)


class CallerData(oracles.Monitor):
    def __init__(self, prop="C13"):
        self.prop = prop

    def after_op(self, world, i, op, pre, snap):
        P = self.prop
        if not bitwise_equal(world.caller_y0, world.caller_y0_copy):
            world.violate(P, P + ".caller_y0_untouched", "the caller's initial-state array was modified by op %d (%s)" % (i, snap["kind"]))
        if op.get("op") == "set" and op.get("attr") == "constants":
            return
        if world.caller_constants != world.caller_constants_copy:
            world.violate(P, P + ".caller_constants_untouched", "the caller's constants dict was modified by op %d" % i)


class C13(Prop):
    pid = "C13"
    quick = {"seeds": 1500, "wall_cap": 90, "chunk": 16}
    thorough = {"seeds": 30000, "wall_cap": 1500, "chunk": 32}
    level = "exploration"
    rule = ("one case = one seeded history of 2-9 ops drawn from {integrate(), integrate(t) incl. no-op at the current time, set dt/rtol/atol/method/tf, "
            "set_kick_vars, integrate with events, faulting integrate (rhs/event/callback raise), reset}.  Twin worlds: (a) the same history run twice "
            "must be bitwise identical; (b) at EVERY reset a second world is constructed fresh with the settings then in force and the remaining ops "
            "are applied to both: every observable (rows, events, dt, status, dense probes) must be bitwise equal after each op; (c) histories made of "
            "integrate(t) calls only are compared with a single integrate to the same end; (d) a call at the current time must change nothing; (e) the "
            "caller's y0 array and constants dict are compared with deep copies after every op.  Non-trivial = at least one recorded step")
    assumptions = ["counters are excluded from the reset-vs-fresh comparison (a fresh system has spent one rhs call on its shape probe; C20 checks counters)",
                   "split-vs-whole: rounding level (64*n*eps) for fixed-step explicit/splitting methods when the two grids coincide, otherwise within 200*(atol+rtol*|y|)*steps*amplification",
                   "a reset system keeps its current method/tolerances/kick mask/tf and restores the constructor's dt"]

    def monitors(self, scn):
        return [SolProbe(), CallerData("C13")]

    def fresh_twin_scenario(self, scn, r):
        """scenario of a freshly constructed system with the settings in force at reset op r, followed by ops after r."""
        c = copy.deepcopy(scn)
        c.pop("expect", None)
        pre = []
        for op in scn["ops"][:r]:
            if op["op"] == "set" and op["attr"] in ("rtol", "atol"):
                # "a freshly constructed system with the same settings": tolerances go to the constructor, not through the setter
                c["system"][op["attr"]] = op["value"]
                continue
            if op["op"] == "set" and op["attr"] == "tf":
                c["system"]["tf"] = op["value"]
                continue
            if op["op"] == "set" and op["attr"] in ("method", "kick", "constants"):
                pre.append(copy.deepcopy(op))
            if op["op"] in ("jac_hook", "jac_unhook", "del_constants"):
                pre.append(copy.deepcopy(op))
        c["ops"] = pre + copy.deepcopy(scn["ops"][r + 1:])
        shift = r + 1 - len(pre)
        c["faults"] = [dict(f, op=f["op"] - shift) for f in scn.get("faults", []) if f["op"] > r]
        return c, len(pre)

    def run(self, scn, res):
        P = "C13"
        w = World(scn, monitors=self.monitors(scn))
        try:
            w.run()
        finally:
            absorb(res, w)
            res["digest"] = w.hexdigest()
        V = res["violations"]
        V.extend(v for v in w.violations if v["property"] == P)
        res["nontrivial"] = w.top_icalls_done >= 1
        res["state_keys"] = self.state_keys(scn, w)

        def bad(oracle, detail, op):
            V.append({"property": P, "oracle": P + "." + oracle, "detail": detail, "op": op})

        ops = scn["ops"]
        # (a) determinism
        w2 = World(scn, monitors=self.monitors(scn))
        w2.run()
        absorb(res, w2)
        if w2.hexdigest() != w.hexdigest():
            bad("deterministic", "the same call sequence run twice produced different event logs", None)
        # (b) reset == fresh
        for r, op in enumerate(ops):
            if op["op"] != "reset":
                continue
            snap = w.snaps[r]
            if not (snap["n"] == 1 and bitwise_equal(snap["t"][0], np.asarray(scn["system"]["t0"], dtype=snap["t"].dtype))
                    and bitwise_equal(snap["y"][0], w.caller_y0_copy)):
                bad("reset_at_t0_y0", "after reset(): %d rows, t[0]=%r" % (snap["n"], float(snap["t"][0])), r)
            if snap["events"]:
                bad("reset_no_events", "after reset() %d events remain" % len(snap["events"]), r)
            if snap["sol_t_eval"] is not None and len(snap["sol_t_eval"]) > 0:
                bad("reset_no_dense", "after reset() dense output still holds %d pieces" % len(snap["sol_t_eval"]), r)
            if "has not been run" not in snap["status"] or snap["success"]:
                bad("reset_status", "after reset() status is %r" % snap["status"][:60], r)
            tw_scn, npre = self.fresh_twin_scenario(scn, r)
            f = World(tw_scn, monitors=self.monitors(tw_scn))
            f.run()
            absorb(res, f)
            fs0 = f.snaps[npre - 1] if npre > 0 else None
            dt_fresh = f.snaps[npre - 1]["dt"] if npre > 0 else None
            # dt right after reset: magnitude of the constructor's dt, oriented along the span
            for j in range(r + 1, len(ops)):
                if scn.get("nan_then_repeat") is not None and j >= scn["nan_then_repeat"]:
                    break       # an episode of non-finite slopes is pinned to peer-call indices: how many calls the two worlds have made by then is not a result
                a = w.snaps[j]
                b = f.snaps[npre + (j - r - 1)]
                d = snaps_equal(a, b)
                if d is not None:
                    bad("reset_equals_fresh", "op %d (%s) after reset(): %s" % (j, a["kind"], d), j)
                    break
                if a["kind"] == "reset":
                    break
        # (f) a call that failed on non-finite slopes, made again on the healed model: the outcome must not depend on the failed call
        if scn.get("nan_then_repeat") is not None:
            i0 = scn["nan_then_repeat"]
            a0, a1 = w.snaps[i0], w.snaps[i0 + 1]
            if a0["exc"] is not None and a1["exc"] is not None and not w.raised_by_op.get(i0 + 1):
                # an undisturbed system (no faults at all, the failing call left out) completes that call?
                tw = copy.deepcopy(scn)
                tw.pop("expect", None)
                tw["faults"] = []
                tw["ops"] = scn["ops"][:i0] + scn["ops"][i0 + 1:]
                tw.pop("nan_then_repeat", None)
                g = World(tw, monitors=[])
                g.run()
                absorb(res, g)
                if g.snaps[i0]["exc"] is None and bitwise_equal(a0["t"], w.snaps[i0 - 1]["t"] if i0 > 0 else a0["t"][:1]):
                    bad("history_independent", "op %d fails (%s) when it is repeated after a call that failed on non-finite slopes (nothing recorded by it), an undisturbed system completes it"
                        % (i0 + 1, a1["exc_type"]), i0 + 1)
        # (d) no-op at target
        for i, op in enumerate(ops):
            if op.get("noop"):
                a = w.snaps[i - 1] if i > 0 else None
                b = w.snaps[i]
                if a is None:
                    continue
                d = snaps_equal(a, b)
                if d is None and (a["nfev"] != b["nfev"] or a["njev"] != b["njev"] or b["counts"].get("rhs", 0) or b["counts"].get("event", 0)):
                    d = "peer calls were made (%s)" % (b["counts"],)
                if d is not None:
                    bad("noop_at_target", "integrate(t_current) changed the system: %s" % d, i)
        # (c) split vs whole
        if scn.get("split_check") and all(o["op"] == "integrate" and not o.get("events") and not o.get("callbacks") for o in ops) and not scn.get("faults"):
            whole = copy.deepcopy(scn)
            whole.pop("expect", None)
            whole["ops"] = [copy.deepcopy(ops[-1])]
            g = World(whole, monitors=[])
            g.run()
            absorb(res, g)
            a, b = w.snaps[-1], g.snaps[-1]
            if a["exc"] is None and b["exc"] is None and a["n"] > 1 and b["n"] > 1:
                fam = gen.method_family(scn["system"]["method"])
                eps = eps_of(a["y"].dtype)
                if fam in ("explicit_fixed", "splitting"):
                    # the library may shorten dt at the entry of a call whose remaining span is shorter than dt, so the grids
                    # need not coincide; when they do, a method without memory must give identical states
                    if bitwise_equal(a["t"], b["t"]):
                        res["probes"]["split_same_grid"] = res["probes"].get("split_same_grid", 0) + 1
                        # the final step of each call is clamped to target - t, which may differ from dt in the last bit
                        err = float(np.max(np.abs(np.asarray(a["y"] - b["y"], dtype=np.float64))))
                        bound = 64 * a["n"] * eps * max(float(np.max(np.abs(a["y"]))), 1e-300)
                        res["ratios"]["C13.split_equals_whole_rounding"] = max(res["ratios"].get("C13.split_equals_whole_rounding", 0), err / bound)
                        if err > bound:
                            bad("split_equals_whole_rounding", "fixed-step run split into %d calls has the same grid as the single call but states differ by %.3e (> %.3e)"
                                % (len(ops), err, bound), len(ops) - 1)
                elif fam in ("explicit_adaptive", "implicit_adaptive", "richardson"):
                    integ = w.system.integrator
                    rtol, atol = float(integ.rtol), float(integ.atol)
                    k = w.system.constants.get("k", 1.0)
                    amp = w.problem.amplification(float(a["t"][0]), float(a["t"][-1]), k)
                    ymax = float(np.max(np.abs(a["y"])))
                    nst = max(a["n"], b["n"])
                    bound = 200 * ((atol + rtol * ymax) * nst * amp + 64 * eps * ymax * nst)
                    err = float(np.max(np.abs(np.asarray(a["y"][-1] - b["y"][-1], dtype=np.float64))))
                    w.ratio("C13.split_close_to_whole", err / bound)
                    res["ratios"]["C13.split_close_to_whole"] = max(res["ratios"].get("C13.split_close_to_whole", 0), err / bound)
                    if err > bound:
                        bad("split_close_to_whole", "split integration differs from the single call by %.3e (> %.3e)" % (err, bound), len(ops) - 1)


PROP = C13()
