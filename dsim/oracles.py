"""Oracles: monitors evaluated in the loop (after every recorded step) and after every op.

Every oracle has an id "<property>.<name>"; a violation is recorded in world.violations and
never raised (a raise inside a callback would itself be a fault).
"""
import numpy as np

from .world import Monitor
from .refmodels import ref_rk_step, ref_split_step, stage_residual, RefHermite, bitwise_equal, eps_of
from .peers import Boom, BudgetExceeded, WallTimeout


def _f(x):
    return float(np.asarray(x))


def sgn(x):
    x = _f(x)
    return (x > 0) - (x < 0)


def op_target(world, op):
    t = op.get("t")
    if t is None:
        return _f(world.system.tf)
    if t == "inf":
        return float("inf")
    if t == "-inf":
        return float("-inf")
    if op.get("t_type"):
        from .world import typed_target
        t = typed_target(t, op["t_type"])
    return float(np.asarray(t, dtype=world.problem.dtype))     # the target in the state's precision (what a "few rounding units" refers to)


def requested_tolerances(world, i, integ):
    req = {"rtol": world.scn["system"].get("rtol"), "atol": world.scn["system"].get("atol")}
    for op_ in world.scn["ops"][:i + 1]:
        if op_.get("op") == "set" and op_.get("attr") in ("rtol", "atol"):
            req[op_["attr"]] = op_["value"]
    rtol = float(req["rtol"]) if req["rtol"] is not None else _f(integ.rtol)
    atol = float(req["atol"]) if req["atol"] is not None else _f(integ.atol)
    return rtol, atol


def integrated_ok(snap):
    return snap["kind"] == "integrate" and snap["exc"] is None


# ======================================================================================== C03
class Structure(Monitor):
    """C03: grid covers exactly the requested span, in order; pairing; finiteness; dtype."""
    prop = "C03"

    def __init__(self, prop="C03", in_loop=True):
        self.prop = prop
        self.in_loop = in_loop

    def before_op(self, world, i, op, pre):
        self.start_n = pre["n"]
        self.start_t = _f(pre["t"][-1])
        self.target = op_target(world, op)
        if np.isfinite(self.target):
            tn = op.get("t") if op.get("t") is not None else world.system.tf
            d_native = np.asarray(tn, dtype=pre["t"].dtype) - pre["t"][-1]         # native precision (longdouble targets)
            self.dir = int(np.sign(d_native))
        else:
            self.dir = sgn(self.target) if op.get("t") in ("inf", "-inf") else sgn(world.system.dt)

    def on_step(self, world, system):
        if not self.in_loop:
            return
        P = self.prop
        n = len(system)
        t = system.t
        y = system.y
        if not (len(t) == n and len(y) == n):
            world.violate(P, P + ".paired_in_loop", "len(t)=%d len(y)=%d len(system)=%d" % (len(t), len(y), n))
            return
        if n >= 2:
            d = t[-1] - t[-2]          # native precision
            if not d * self.dir > 0:
                world.violate(P, P + ".monotone_in_loop", "t[-2]=%r t[-1]=%r dir=%d" % (_f(t[-2]), _f(t[-1]), self.dir))
        spiked = any(fr["fault"]["kind"] == "spike" for fr in world.fired)     # a spiked rhs value is garbage the rhs itself returned
        if not spiked and not (np.all(np.isfinite(y[-1])) and np.isfinite(_f(t[-1]))):
            world.violate(P, P + ".finite_in_loop", "non-finite row at index %d" % (n - 1))

    def after_op(self, world, i, op, pre, snap):
        P = self.prop
        t, y = snap["t"], snap["y"]
        dtype = world.problem.dtype
        eps = eps_of(dtype)
        if not (len(t) == len(y) == snap["n"]):
            world.violate(P, P + ".paired", "len(t)=%d len(y)=%d len=%d" % (len(t), len(y), snap["n"]))
            return
        if t.dtype != dtype or y.dtype != dtype:
            world.violate(P, P + ".dtype", "t %s y %s expected %s" % (t.dtype, y.dtype, dtype))
        t0 = np.asarray(world.scn["system"]["t0"], dtype=dtype)
        if not bitwise_equal(t[0], t0):
            world.violate(P, P + ".starts_at_t0", "t[0]=%r t0=%r" % (_f(t[0]), _f(t0)))
        if not bitwise_equal(y[0], world.caller_y0_copy):
            world.violate(P, P + ".first_state_is_y0", "y[0] differs from y0")
        spiked = any(fr["fault"]["kind"] == "spike" for fr in world.fired)
        if not spiked and not (np.all(np.isfinite(t)) and np.all(np.isfinite(y))):
            world.violate(P, P + ".finite", "non-finite stored value")
        if snap["kind"] == "reset":
            return
        # earlier rows untouched
        m = pre["n"]
        if snap["n"] >= m:
            if not (bitwise_equal(t[:m], pre["t"]) and bitwise_equal(y[:m], pre["y"])):
                world.violate(P, P + ".history_immutable", "rows recorded before op %d changed" % i)
        elif snap["kind"] == "integrate":
            world.violate(P, P + ".history_immutable", "row count shrank %d -> %d" % (m, snap["n"]))
        if snap["kind"] != "integrate":
            return
        # paired by content: every new row (t, y) is (t0 + dTime, y0 + dState) of ONE completed integrator call that started at the row
        # before it (a time stamped from elsewhere next to the state of a shorter step is not a pair)
        if P == "C03":
            for j in range(max(m - 1, 0), snap["n"] - 1):
                if match_icall(world, t[j], y[j], t[j + 1]) is None:
                    cands = [c for c in world.icalls if c["depth"] == 0 and c["ok"] and bitwise_equal(c["t0"], t[j]) and bitwise_equal(c["y0"], y[j])]
                    if cands and any(bitwise_equal(np.asarray(c["y0"] + c["dState"], dtype=y.dtype), y[j + 1]) for c in cands):
                        c = [c for c in cands if bitwise_equal(np.asarray(c["y0"] + c["dState"], dtype=y.dtype), y[j + 1])][-1]
                        world.violate(P, P + ".paired", "row %d: time %r is stored next to the state reached at %r (the step taken from row %d had dTime=%r)"
                                      % (j + 1, _f(t[j + 1]), _f(c["t0"] + c["dTime"]), j, _f(c["dTime"])))
                        break
        target = self.target
        start = self.start_t
        seg = np.asarray(t[m - 1:]) if m >= 1 else np.asarray(t)      # native precision
        d = np.diff(seg)
        if len(d) and not np.all(d * self.dir > 0):
            j = int(np.argmax(~(d * self.dir > 0)))
            world.violate(P, P + ".monotone", "segment of op %d not strictly monotone toward target at row %d: %r -> %r (dir %d)"
                          % (i, m - 1 + j, seg[j], seg[j + 1], self.dir))
        if np.isfinite(target):
            scale = max(abs(target), abs(start), 1.0)
            over = np.asarray((np.asarray(target, dtype=seg.dtype) - seg) * self.dir, dtype=np.float64)
            if np.any(over < -32 * eps * scale):
                j = int(np.argmin(over))
                world.violate(P, P + ".no_overshoot", "row %d time %r beyond target %r (dir %d)" % (m - 1 + j, seg[j], target, self.dir))
        noop = np.isfinite(target) and abs(target - start) < 4 * eps
        clean_history = all(sn["exc"] is None and "terminated upon" not in sn["status"] for sn in world.snaps[:-1])
        if snap["exc"] is None and not noop and not clean_history:
            terminated = "terminated upon finding" in snap["status"] and op.get("events")
            if np.isfinite(target) and not terminated:
                scale = max(abs(target), abs(start), 1.0)
                if abs(_f(t[-1]) - target) > 32 * eps * scale:
                    world.violate(P, P + ".ends_at_target", "t[-1]=%r target=%r start=%r" % (_f(t[-1]), target, start))
        if snap["exc"] is None and not noop and clean_history:
            if not snap["success"]:
                world.violate(P, P + ".status_success", "integrate returned but success is False: %s" % snap["status"])
            terminated = "terminated upon finding" in snap["status"] and op.get("events")
            if np.isfinite(target) and not terminated:
                scale = max(abs(target), abs(start), 1.0)
                if abs(_f(t[-1]) - target) > 32 * eps * scale:
                    world.violate(P, P + ".ends_at_target", "t[-1]=%r target=%r start=%r" % (_f(t[-1]), target, start))
                if "completed successfully" not in snap["status"] and not op.get("events"):
                    world.violate(P, P + ".status_text", "status after a completed run: %s" % snap["status"])


# ======================================================================================== C20
class Counters(Monitor):
    """C20: nfev/njev equal peer-side counts; callbacks once per recorded step, ordered, visible; dt honoured."""
    prop = "C20"

    def __init__(self, prop="C20"):
        self.prop = prop

    def _check_counts(self, world, system, where):
        P = self.prop
        want = world.rhs_completed - world.rhs_completed_at_reset
        got = int(system.nfev)
        if got != want:
            world.violate(P, P + ".nfev_exact", "%s: nfev=%d but the rhs peer completed %d calls since construction/reset" % (where, got, want))
        nj = int(system.njev)
        if nj not in (world.jacreq_returned - world.jacreq_at_build, world.jacreq_returned - world.jacreq_at_reset):
            world.violate(P, P + ".njev_exact", "%s: njev=%d but %d Jacobian requests returned since construction (%d since reset)"
                          % (where, nj, world.jacreq_returned - world.jacreq_at_build, world.jacreq_returned - world.jacreq_at_reset))

    def on_step(self, world, system):
        self._check_counts(world, system, "in loop")

    def before_op(self, world, i, op, pre):
        self.cb0 = len(world.cb_log)
        self.ic0 = len(world.icalls)

    def after_op(self, world, i, op, pre, snap):
        P = self.prop
        self._check_counts(world, world.system, "after op %d (%s)" % (i, snap["kind"]))
        if snap["kind"] != "integrate":
            return
        names = list(op.get("callbacks", []))
        recs = world.cb_log[self.cb0:]
        top = [c for c in world.icalls[self.ic0:] if c["depth"] == 0 and c["nested"] == 1]
        top_ok = [c for c in top if c["ok"]]
        if names:
            k = len(names)
            # order within rounds
            for j, r in enumerate(recs):
                if r["cb"] != names[j % k]:
                    world.violate(P, P + ".cb_order", "callback #%d was %s, expected %s" % (j, r["cb"], names[j % k]))
                    break
            rounds = [recs[j:j + k] for j in range(0, len(recs), k)]
            full = [r for r in rounds if len(r) == k]
            if snap["exc"] is None and len(full) != len(top_ok):
                world.violate(P, P + ".cb_once_per_step", "%d callback rounds for %d loop iterations" % (len(full), len(top_ok)))
            prev_done = None
            prev_len = pre["n"]
            for ri, r in enumerate(rounds):
                r0 = r[0]
                if prev_done is not None and r0["icalls_done"] == prev_done:
                    world.violate(P, P + ".cb_once_per_step", "round %d invoked again without a new step" % ri)
                prev_done = r0["icalls_done"]
                # a terminal event at (numerically) the starting point rolls the whole step back: one final round, no new row
                last_round_of_terminated = (ri == len(rounds) - 1) and op.get("events") and snap["counts"].get("nested_integrate", 0) > 0
                if not (r0["len"] > prev_len) and not (last_round_of_terminated and r0["len"] >= prev_len):
                    world.violate(P, P + ".cb_after_record", "round %d: len(system)=%d not beyond %d" % (ri, r0["len"], prev_len))
                prev_len = r0["len"]
                for rr in r:
                    n = rr["len"]
                    if not (rr["t_len"] == n and rr["y_len"] == n):
                        world.violate(P, P + ".cb_visible", "callback saw len=%d t_len=%d y_len=%d" % (n, rr["t_len"], rr["y_len"]))
                        continue
                    if n <= snap["n"]:
                        if not (bitwise_equal(rr["t_last"], snap["t"][n - 1]) and bitwise_equal(rr["y_last"], snap["y"][n - 1])
                                and bitwise_equal(rr["item_t"], rr["t_last"]) and bitwise_equal(rr["item_y"], rr["y_last"])):
                            world.violate(P, P + ".cb_visible", "row %d seen by callback differs from the row finally recorded" % (n - 1))
                    elif snap["exc"] is None:
                        world.violate(P, P + ".cb_visible", "callback saw %d rows, only %d recorded" % (n, snap["n"]))
        # dt assigned by a callback is used for the next step
        target = op_target(world, op)
        for r in recs:
            if "dt_set" not in r:
                continue
            later_setter = [q for q in recs if q["seq"] > r["seq"] and q["icalls_done"] == r["icalls_done"] and "dt_set" in q]
            if later_setter:
                continue
            nxt = [c for c in top if c["seq0"] >= r["seq"]]
            if not nxt:
                continue
            c = nxt[0]
            h = c["h_req"]
            want = r["dt_set"]
            if np.isfinite(target) and sgn(h) != sgn(target - _f(c["t0"])) and sgn(target - _f(c["t0"])) != 0:
                world.violate(P, P + ".cb_dt_used", "callback set dt=%r; the next step was attempted with h=%r, away from the target %r (t=%r)"
                              % (_f(want), _f(h), target, _f(c["t0"])))
                continue
            if bitwise_equal(np.abs(h), np.abs(want)):
                world.probe("cb_dt_honoured")
                continue
            tgt_n = np.asarray(op.get("t") if op.get("t") is not None else world.system.tf, dtype=h.dtype) if np.isfinite(target) else None
            clamp_ok = np.isfinite(target) and abs(_f(h)) < abs(_f(want)) and _f(np.abs(c["t0"] + h - tgt_n)) <= 4 * eps_of(h.dtype) * max(1.0, abs(target))
            if clamp_ok:
                world.probe("cb_dt_clamped_final")
                continue
            world.violate(P, P + ".cb_dt_used", "callback set dt=%r, next step attempted h=%r (t=%r target=%r)" % (_f(want), _f(h), _f(c["t0"]), target))


# ======================================================================================== C02 (+ reuse)
def match_icall(world, t_i, y_i, t_n):
    """find the completed integrator call that produced the recorded step (t_i,y_i) -> t_n."""
    # index of the completed top-level calls by the value of their start time; icalls only grows, a record is indexed once it is closed
    idx = world.__dict__.setdefault("_icall_index", {"n": 0, "by_t0": {}, "seen": set()})
    n = idx["n"]
    advancing = True
    for q in range(n, len(world.icalls)):
        c = world.icalls[q]
        if c["ok"] is None:
            advancing = False          # still open: look at it again next time
            continue
        if c["id"] not in idx["seen"]:
            idx["seen"].add(c["id"])
            if c["depth"] == 0 and c["ok"]:
                idx["by_t0"].setdefault(float(np.asarray(c["t0"], dtype=np.float64)), []).append(c)
        if advancing:
            idx["n"] = q + 1
    best = None
    cands = idx["by_t0"].get(float(np.asarray(t_i, dtype=np.float64)), [])
    for c in cands:
        if bitwise_equal(c["t0"], t_i) and bitwise_equal(c["y0"], y_i) and bitwise_equal(np.asarray(c["t0"] + c["dTime"], dtype=t_i.dtype), t_n):
            best = c
    return best


def check_rows(world, snap, first_row, prop, oracle_prefix, do_implicit=True):
    """Every recorded step rows[j] -> rows[j+1], j >= first_row, must be a valid step of the method."""
    t, y = snap["t"], snap["y"]
    f = world.f_math
    for j in range(max(first_row, 0), snap["n"] - 1):
        c = match_icall(world, t[j], y[j], t[j + 1])
        if c is None:
            world.violate(prop, oracle_prefix + ".row_has_step", "row %d -> %d (t=%r -> %r) matches no completed integrator call" % (j, j + 1, _f(t[j]), _f(t[j + 1])))
            continue
        integ = c["integ"]
        h = c["dTime"]
        dy_rec = y[j + 1] - y[j]
        eps = eps_of(y.dtype)
        if not bitwise_equal(np.asarray(y[j] + c["dState"], dtype=y.dtype), y[j + 1]):
            world.violate(prop, oracle_prefix + ".row_is_y_plus_increment", "row %d is not y+dState of its step" % (j + 1))
        if c["attempts"] and c["kind"] != "rich":
            last = c["attempts"][-1]
            if not (last["done"] and bitwise_equal(last["h"], h)):
                world.violate(prop, oracle_prefix + ".recorded_is_last_attempt", "row %d: recorded h=%r, last attempt h=%r" % (j + 1, _f(h), _f(last["h"])))
        if c["kind"] == "split":
            dy_ref, scale = ref_split_step(integ, f, c["t0"], c["y0"], h)
            s = integ.tableau_intermediate.shape[0]
            bound = 4 * s * eps * max(scale, 1e-300)
            err = float(np.max(np.abs(dy_ref - c["dState"])))
            world.ratio(oracle_prefix + ".split_step_formula", err / bound)
            if err > bound:
                world.violate(prop, oracle_prefix + ".split_step_formula", "row %d: |dy - composition| = %.3e > %.3e (h=%r)" % (j + 1, err, bound, _f(h)))
        elif c["kind"] == "rk" and not c["implicit"]:
            dy_ref, K, scale = ref_rk_step(integ, f, c["t0"], c["y0"], h)
            s = integ.stages
            L = world.problem.lipschitz(**world.system.constants) if hasattr(world.problem, "lipschitz") else 1.0
            amp = (1.0 + abs(_f(h)) * L) ** min(s, 8)
            s_dy, s_arg = ref_rk_step.last_scales
            bound = 4 * s * eps * max(s_dy + abs(_f(h)) * L * s_arg * amp, 1e-300)
            err = float(np.max(np.abs(dy_ref - c["dState"])))
            world.ratio(oracle_prefix + ".rk_step_formula", err / bound)
            if err > bound:
                world.violate(prop, oracle_prefix + ".rk_step_formula", "row %d: |dy - h*sum(b k)| = %.3e > %.3e (h=%r, %s)" % (j + 1, err, bound, _f(h), c["cls"]))
        elif c["kind"] == "rk" and c["implicit"] and do_implicit:
            K = c["stages"]
            tabI = np.asarray(integ.tableau_intermediate)
            tabF = np.asarray(integ.tableau_final)
            res = stage_residual(tabI, f, c["t0"], c["y0"], h, K)
            atol, rtol = _f(integ.atol), _f(integ.rtol)
            desired = 0.5 * abs(atol + float(np.max(np.abs(rtol * c["y0"]))))
            kmax = float(np.max(np.abs(K))) if K.size else 0.0
            bound = 10 * desired + 256 * eps * (kmax + 1.0)
            world.ratio(oracle_prefix + ".implicit_stage_residual", res / bound)
            if res > bound:
                world.violate(prop, oracle_prefix + ".implicit_stage_residual", "row %d: stage residual %.3e > %.3e (tol %.3e, h=%r, %s)" % (j + 1, res, bound, desired, _f(h), c["cls"]))
            dy_ref = h * np.sum(K * tabF[0, 1:], axis=-1)
            scale = abs(_f(h)) * float(np.sum(np.abs(tabF[0, 1:]))) * kmax
            bound2 = 64 * integ.stages * eps * max(scale, 1e-300)
            err = float(np.max(np.abs(dy_ref - c["dState"])))
            world.ratio(oracle_prefix + ".implicit_increment", err / bound2)
            if err > bound2:
                world.violate(prop, oracle_prefix + ".implicit_increment", "row %d: |dy - h*sum(b k)| = %.3e > %.3e" % (j + 1, err, bound2))
            # accepted => the last solve of the call reported success
            last = c["attempts"][-1] if c["attempts"] else None
            if last is not None and last["solves"]:
                sv = last["solves"][-1]
                if not sv.get("success", False):
                    world.violate(prop, oracle_prefix + ".accepted_unconverged", "row %d recorded although its stage solve reported failure (injected=%s)" % (j + 1, sv.get("injected")))


class StepValidity(Monitor):
    """C02: every recorded step equals the RK update defined by the method's tables; unconverged implicit steps never accepted."""

    def __init__(self, prop="C02"):
        self.prop = prop

    def after_op(self, world, i, op, pre, snap):
        if snap["kind"] != "integrate":
            return
        check_rows(world, snap, pre["n"] - 1, self.prop, self.prop)
        # every completed implicit integrator call (recorded or not): result is the last attempt and its solve succeeded
        for c in world.icalls:
            if c["op"] != i or c["depth"] != 0 or not c["ok"] or c["kind"] != "rk" or not c.get("implicit"):
                continue
            last = c["attempts"][-1]
            if last["solves"] and not last["solves"][-1].get("success", False):
                world.violate(self.prop, self.prop + ".accepted_unconverged", "integrator call %d returned a step whose stage solve reported failure" % c["id"])


# ======================================================================================== C05 (control-flow clauses)
class RejectionShrinks(Monitor):
    """C05: a controller-rejected step is retried with a strictly smaller magnitude (same sign); the recorded
    step is the last attempt; exhaustion raises FailedToMeetTolerances and records nothing."""

    def __init__(self, prop="C05"):
        self.prop = prop

    def before_op(self, world, i, op, pre):
        self.ic0 = len(world.icalls)

    def after_op(self, world, i, op, pre, snap):
        if snap["kind"] != "integrate":
            return
        P = self.prop
        ics = world.icalls[self.ic0:]
        for c in ics:
            if c["kind"] == "rk" and c["depth"] == 0:
                atts = c["attempts"]
                for j in range(len(atts) - 1):
                    a, b = atts[j], atts[j + 1]
                    if not a["done"]:
                        continue
                    solver_failed = any(not sv.get("success", True) or sv.get("raised") for sv in a["solves"]) or (a.get("newton_ok") is not None and not bool(a.get("newton_ok")))
                    if a["solves"] and len(a["solves"]) > 1:
                        solver_failed = True      # high-precision retry inside the attempt
                    if solver_failed:
                        world.probe("retry_after_failed_solve")
                        continue
                    world.probe("step_rejected")
                    ha, hb = _f(a["h"]), _f(b["h"])
                    if not (abs(hb) < abs(ha) and sgn(hb) == sgn(ha)):
                        world.violate(P, P + ".retry_shrinks", "integrator call at t=%r: attempt %d h=%r rejected, retried with h=%r (%s)"
                                      % (_f(c["t0"]), j, ha, hb, c["cls"]))
                        break
                if len(atts) > 2:
                    world.probe("multiple_retries")
            if c["kind"] == "rich" and c["depth"] >= 1:
                parent = [p for p in ics if p["kind"] == "rich" and p["depth"] == c["depth"] - 1 and p["seq0"] <= c["seq0"] and p.get("seq1", 1e18) >= c.get("seq1", 0)]
                if parent:
                    world.probe("richardson_redo")
                    hp, hc = _f(parent[-1]["h_req"]), _f(c["h_req"])
                    if not (abs(hc) < abs(hp) and sgn(hc) == sgn(hp)):
                        world.violate(P, P + ".retry_shrinks", "Richardson redo at t=%r: h=%r retried with h=%r" % (_f(c["t0"]), hp, hc))
        # exhaustion => error, nothing recorded
        failed = [c for c in ics if c["depth"] == 0 and c["ok"] is False and c.get("exc") == "FailedToMeetTolerances"]
        if failed:
            world.probe("retries_exhausted")
            e = snap["exc"]
            ok = e is not None and type(e).__name__ == "FailedIntegration" and type(e.__cause__).__name__ in ("FailedToMeetTolerances", "FailedIntegration")
            if not ok:
                world.violate(P, P + ".exhaustion_raises", "retry loop exhausted but integrate raised %r" % (snap["exc_type"],))
            c = failed[-1]
            if c["nested"] == 1:
                # the last recorded row must be the state the failed call started from
                if not (bitwise_equal(snap["t"][-1], c["t0"]) and bitwise_equal(snap["y"][-1], c["y0"])):
                    world.violate(P, P + ".exhaustion_records_nothing", "after FailedToMeetTolerances the last row (t=%r) is not the start of the failed step (t=%r)"
                                  % (_f(snap["t"][-1]), _f(c["t0"])))


class Accuracy(Monitor):
    """C05 (fault-free clause): global error against the closed form is bounded by K*(atol+rtol*max|y|)*steps*amplification."""
    K = 50.0
    K_local = 100.0

    def __init__(self, prop="C05", oracle=None, K=None):
        self.prop = prop
        self.oracle = oracle or (prop + ".global_error")
        if K is not None:
            self.K = K

    def after_op(self, world, i, op, pre, snap):
        if snap["kind"] != "integrate" or snap["exc"] is not None:
            return
        if not world.problem.has_exact or world.fired:
            return
        if any(s["exc"] is not None for s in world.snaps[:-1]):
            return
        integ = world.system.integrator
        # (the Richardson wrappers are adaptive, but their `is_adaptive` property returns None)
        if not (getattr(integ, "is_adaptive", False) or world.scn["system"]["method"].startswith("Rich:")):
            return
        t, y = snap["t"], snap["y"]
        if len(t) < 2:
            return
        k = world.system.constants.get("k", 1.0)
        if not (np.all(np.isfinite(np.asarray(t, dtype=np.float64))) and np.all(np.isfinite(np.asarray(y, dtype=np.float64)))):
            # "an error is raised instead of an inaccurate state being recorded": a call that returns normally with non-finite rows
            bad_row = int(np.argmax(~np.isfinite(np.asarray(y, dtype=np.float64).reshape(len(t), -1)).all(axis=1) | ~np.isfinite(np.asarray(t, dtype=np.float64))))
            world.violate(self.prop, self.prop + ".finite_result", "integrate() returned normally (status: %s) with a non-finite row %d of %d (t=%r)"
                          % (snap["status"][:40], bad_row, len(t), _f(t[bad_row])))
            return
        if world.scn.get("overflow_try"):
            return      # spans of hundreds of time constants: only "finite or an error" is judged
        exact = world.problem.exact(t[-1], t[0], np.asarray(y[0], dtype=np.float64), k=k)
        err = float(np.max(np.abs(np.asarray(y[-1], dtype=np.float64) - exact)))
        # the tolerances the USER asked for (constructor arguments, then the setter ops of the history) - read back from the integrator
        # only where the user gave none: a library that swaps a requested tolerance for another value must not vouch for itself
        rtol, atol = requested_tolerances(world, i, integ)
        ymax = float(np.max(np.abs(y)))
        tol = atol + rtol * ymax
        amp = world.problem.amplification(_f(t[0]), _f(t[-1]), k)
        nsteps = len(t) - 1
        eps = eps_of(y.dtype)
        bound = tol * nsteps * amp + 64 * eps * nsteps * ymax * amp
        world.ratio(self.oracle, err / bound)
        heavy = type(integ).__name__ in ("RK1412Solver", "RK108Solver")     # heavy-tailed on the unchanged tree (few huge steps): see D24
        K = self.K * (20.0 if heavy else 1.0)
        K_local = self.K_local * (20.0 if heavy else 1.0)
        if err > K * bound:
            world.violate(self.prop, self.oracle, "|y_N - exact| = %.3e > %g * %.3e (rtol %.2e atol %.2e steps %d amp %.2f, %s)"
                          % (err, K, bound, rtol, atol, nsteps, amp, type(integ).__name__))
            return
        # sharper form of the same clause: every step may contribute a local error (atol + rtol*|y_j|), which reaches the
        # end multiplied by the exact flow's sensitivity d y(t_N)/d y(t_j) -- "the problem's own error amplification"
        n_ = np.sqrt(float(np.asarray(y[0]).size))
        acc = 0.0
        y0f = np.asarray(y[0], dtype=np.float64)
        for j in range(len(t) - 1):
            yj_exact = world.problem.exact(t[j], t[0], y0f, k=k)
            sens = world.problem.sensitivity(_f(t[j]), _f(t[-1]), yj_exact, k)
            acc += sens * (atol + rtol * float(np.max(np.abs(y[j]))))
        bound2 = n_ * acc + 64 * eps * nsteps * ymax * amp
        world.ratio(self.oracle + "_local", err / bound2)
        if err > K_local * bound2:
            world.violate(self.prop, self.oracle + "_local", "|y_N - exact| = %.3e > %g * sum_j sens_j*(atol+rtol*|y_j|) = %g * %.3e (rtol %.2e atol %.2e steps %d, %s)"
                          % (err, K_local, K_local, bound2, rtol, atol, nsteps, type(integ).__name__))


# ======================================================================================== C06
def _inside(a, b, frac):
    return a + (b - a) * frac


class Dense(Monitor):
    """C06: dense output is a consistent continuous extension of the recorded trajectory."""

    def __init__(self, prop="C06", accuracy=True, K_acc=20.0, K_rich=200.0):
        self.prop = prop
        self.accuracy = accuracy
        self.K_acc = K_acc
        self.K_rich = K_rich

    def after_op(self, world, i, op, pre, snap):
        P = self.prop
        sysm = world.system
        sol = sysm.sol
        if not world.scn["system"].get("dense"):
            return
        t, y = snap["t"], snap["y"]
        n = snap["n"]
        if n < 2:
            if sol is not None and sol.t_eval is not None and len(sol.t_eval) > 0:
                world.violate(P, P + ".coverage", "no step recorded but dense output holds %d pieces" % len(sol.t_eval))
            return
        if sol is None or sol.t_eval is None:
            world.violate(P, P + ".coverage", "%d steps recorded but dense output is empty" % (n - 1))
            return
        dd = np.diff(t)
        if not (np.all(dd > 0) or np.all(dd < 0)):
            return      # history with a reversal of direction: a single-valued dense output is not defined, not claimed
        rich = any(c["kind"] == "rich" for c in world.icalls if c["depth"] == 0 and c["ok"])
        te = [np.asarray(x) for x in sol.t_eval]
        tev = np.array([x for x in te])
        dtype = y.dtype
        eps = eps_of(dtype)
        d = np.diff(tev)
        if len(te) != len(sol.y_interpolants):
            world.violate(P, P + ".coverage", "len(t_eval)=%d but %d interpolants" % (len(te), len(sol.y_interpolants)))
            return
        # Richardson sub-steps of a step that is only a few units of the time resolution long (float32 at |t| ~ 200, a roll-back of
        # 5 ulps split 32 ways) end at coinciding times: order is demanded, strictness only for one piece per step
        mono_ok = (np.all(d > 0) or np.all(d < 0)) if not rich else (np.all(d >= 0) or np.all(d <= 0))
        if len(d) and not mono_ok:
            world.violate(P, P + ".ordered", "sol.t_eval is not %smonotone: %r" % ("" if rich else "strictly ", [float(v) for v in tev[:12]],))
        rec = t[1:]
        if not rich:
            # piece end times are compared within 2 ulp of the state's precision: the integrator may carry the step
            # size in higher precision than the (float32) time buffer
            tol_m = 2 * eps * np.maximum(1.0, np.abs(np.sort(rec).astype(np.float64))) if len(rec) else 0.0
            same = len(tev) == len(rec) and bool(np.all(np.abs(np.sort(tev).astype(np.float64) - np.sort(rec).astype(np.float64)) <= tol_m))
            if not same:
                tol1 = 2 * eps * max(1.0, float(np.max(np.abs(rec.astype(np.float64)))) if len(rec) else 1.0)
                extra = [float(v) for v in tev if not np.any(np.abs((rec - v).astype(np.float64)) <= tol1)][:4]
                missing = [float(v) for v in rec if not np.any(np.abs((tev - v).astype(np.float64)) <= tol1)][:4]
                world.violate(P, P + ".coverage", "dense pieces do not cover exactly the %d recorded steps: %d pieces, extra ends %r, missing ends %r"
                              % (n - 1, len(tev), extra, missing))
                return
        else:
            lo, hi = min(t[0], t[-1]), max(t[0], t[-1])        # native precision
            tol_t = 8 * eps * max(1.0, abs(_f(lo)), abs(_f(hi)))
            if np.any(tev < lo - tol_t) or np.any(tev > hi + tol_t):
                world.violate(P, P + ".coverage", "Richardson piece end outside the integrated range [%r,%r]" % (_f(lo), _f(hi)))
            missing = [float(v) for v in rec if not np.any(np.abs(tev - v) <= tol_t)][:4]
            if missing:
                world.violate(P, P + ".coverage", "recorded step ends %r have no dense piece ending there" % (missing,))
        f = world.f_math
        spiked = any(fr["fault"]["kind"] == "spike" for fr in world.fired)
        slopes = [None] * n
        k = world.system.constants.get("k", 1.0)
        integ = world.system.integrator
        rtol = _f(getattr(integ, "rtol", 0.0))
        atol = _f(getattr(integ, "atol", 0.0))
        # access pattern: the order in which a user touches the dense output after a call is part of the history (seeded per
        # scenario and op): scalar queries first / an array query first / the range attributes first
        pattern = (int(world.scn.get("seed", 0)) * 31 + i) % 3
        first_arr = None
        if pattern == 1:
            world.probe("dense_first_access_array")
            first_arr = sol(np.asarray(t, dtype=dtype))
        elif pattern == 2:
            world.probe("dense_first_access_range")
            # read only: the attributes are the extremes of the piece END times (the property says nothing about them)
            getattr(sol, "t_min", None), getattr(sol, "t_max", None)
        queries = []
        for j in range(n - 1):
            a, b = t[j], t[j + 1]
            if a == b or spiked:
                continue        # a spiked rhs value may sit in an end slope: only coverage/order are meaningful then
            # both end slopes of a piece are slopes of the right-hand side that was in force when ITS step was taken (a history may
            # assign new constants between two calls: at that row the two adjoining pieces belong to different right-hand sides)
            cj_ = world.consts_for_row(j + 1)
            slopes = {j: np.asarray(world.problem.f(t[j], y[j], **cj_), dtype=dtype), j + 1: np.asarray(world.problem.f(t[j + 1], y[j + 1], **cj_), dtype=dtype)}
            ref = RefHermite(a, b, y[j], y[j + 1], slopes[j], slopes[j + 1])
            sc = ref.scale()
            # (b) grid reproduction
            for (tt, yy, name) in ((a, y[j], "left"), (b, y[j + 1], "right")):
                got = sol(tt)
                err = float(np.max(np.abs(got - yy)))
                if not rich:
                    # the piece's end time may differ from the recorded (rounded) time by the time resolution: slope * ulp(t)
                    smax = float(max(np.max(np.abs(slopes[j])), np.max(np.abs(slopes[j + 1]))))
                    bound = 4 * eps * max(sc, 1e-300) + 4 * eps * max(abs(_f(tt)), 1.0) * smax
                    world.ratio(P + ".grid_reproduction", err / bound)
                    if err > bound:
                        world.violate(P, P + ".grid_reproduction", "sol(t[%d]) differs from the recorded state by %.3e (> %.3e), %s end of step %d"
                                      % (j if name == "left" else j + 1, err, bound, name, j))
                else:
                    bound = (atol + rtol * float(np.max(np.abs(yy)))) + 64 * eps * sc
                    world.ratio(P + ".grid_reproduction_richardson", err / bound)
                    gross = 0.05 * (float(np.max(np.abs(yy))) + float(np.max(np.abs(y[j + 1] - y[j]))) + 1e-300)
                    if err > gross:
                        world.violate(P, P + ".grid_reproduction_richardson_gross", "sol(t[%d]) differs from the recorded state by %.3e (> %.3e): not even close"
                                      % (j if name == "left" else j + 1, err, gross))
                    if err > self.K_rich * bound:
                        world.violate(P, P + ".grid_reproduction_richardson", "sol(t[%d]) differs from the recorded state by %.3e (> %g*%.3e)"
                                      % (j if name == "left" else j + 1, err, self.K_rich, bound))
            if rich or spiked:
                continue
            # (c) containing piece, (d) slopes
            taus = [np.nextafter(a, b), _inside(a, b, dtype.type(0.31)), _inside(a, b, dtype.type(0.5)), _inside(a, b, dtype.type(0.83)), np.nextafter(b, a)]
            for tau in taus:
                tau = np.asarray(tau, dtype=dtype)
                if not (min(a, b) <= tau <= max(a, b)):
                    continue
                got = sol(tau)
                want = ref(tau)
                err = float(np.max(np.abs(got - want)))
                smax_ = float(max(np.max(np.abs(slopes[j])), np.max(np.abs(slopes[j + 1]))))
                bound = 256 * eps * max(sc, 1e-300) + 8 * eps * max(abs(_f(tau)), 1.0) * smax_       # + slope * time resolution
                world.ratio(P + ".containing_piece", err / bound)
                if err > bound:
                    world.violate(P, P + ".containing_piece", "sol(%r) in step %d [%r,%r] differs from that step's Hermite piece by %.3e (> %.3e)"
                                  % (_f(tau), j, _f(a), _f(b), err, bound))
                    break
                queries.append((tau, got))
            for (tau, m, name) in ((np.nextafter(a, b), slopes[j], "start"), (np.nextafter(b, a), slopes[j + 1], "end")):
                tau = np.asarray(tau, dtype=dtype)
                g = sol.grad(tau)
                h = abs(_f(b - a))
                curv = (float(np.max(np.abs(y[j + 1] - y[j]))) / h + float(np.max(np.abs(slopes[j]))) + float(np.max(np.abs(slopes[j + 1])))) * 8
                bound = 256 * eps * (sc / h) + 8 * eps * max(abs(_f(a)), abs(_f(b)), 1e-300) / h * curv + 1e-300
                err = float(np.max(np.abs(g - m)))
                world.ratio(P + ".end_slopes", err / bound)
                if err > bound:
                    world.violate(P, P + ".end_slopes", "slope of the piece at the %s of step %d differs from f(recorded state) by %.3e (> %.3e)" % (name, j, err, bound))
                    break
        # scalar and array queries agree
        if queries and not rich:
            qs = queries[:: max(1, len(queries) // 7)][:8]
            arr = np.array([q[0] for q in qs], dtype=dtype)[::-1]
            got = sol(arr)
            for idx, q in enumerate(qs[::-1]):
                if not bitwise_equal(np.asarray(got[idx]), np.asarray(q[1])):
                    world.violate(P, P + ".array_query", "array query at %r differs from the scalar query" % (_f(q[0]),))
                    break
        if first_arr is not None:
            again = sol(np.asarray(t, dtype=dtype))
            if not bitwise_equal(np.asarray(again), np.asarray(first_arr)):
                world.violate(P, P + ".array_query", "the array query over the recorded times gives different answers before and after the scalar queries")
        # (e) accuracy between grid points against the closed form
        if self.accuracy and world.problem.has_exact and not world.fired and all(s["exc"] is None for s in world.snaps) and integ is not None:
            adaptive = bool(getattr(integ, "is_adaptive", False)) or world.scn["system"]["method"].startswith("Rich:")
            if adaptive:
                y0 = np.asarray(y[0], dtype=np.float64)
                end_err = []
                for j in range(n):
                    ex = world.problem.exact(t[j], t[0], y0, k=k)
                    end_err.append(float(np.max(np.abs(np.asarray(y[j], dtype=np.float64) - ex))))
                worst = 0.0
                for j in range(n - 1):
                    a, b = t[j], t[j + 1]
                    h = abs(_f(b - a))
                    tau = _inside(a, b, dtype.type(0.5))
                    ex = world.problem.exact(tau, t[0], y0, k=k)
                    err = float(np.max(np.abs(np.asarray(sol(tau), dtype=np.float64) - ex)))
                    ymax = float(np.max(np.abs(y[j:j + 2])))
                    y4 = world.problem.deriv4_scale(k) * ymax * 4
                    bound = 3 * max(end_err[j], end_err[j + 1]) + 1.5 * h ** 4 / 384 * y4 + (atol + rtol * ymax) * (self.K_rich if rich else 1.0) + 64 * eps * ymax
                    worst = max(worst, err / bound)
                    world.ratio(P + ".interp_accuracy", err / bound)
                    if err > self.K_acc * bound:
                        world.violate(P, P + ".interp_accuracy", "|sol(mid of step %d) - exact| = %.3e > %g * %.3e (h=%.3g)" % (j, err, self.K_acc, bound, h))
                        break


# ======================================================================================== C19
class Lookup(Monitor):
    """C19: trajectory lookup by index, iteration, by time (dense / nearest sample) and whole-run slices."""

    def __init__(self, prop="C19"):
        self.prop = prop
        self.steps_seen = 0

    def _whole_run(self, world, system, where):
        """lookups made while the system still holds unused storage (before the first call, from inside a running call)."""
        P = self.prop
        t, y = system.t, system.y
        n = len(t)
        if n >= 2 and not (np.all(np.diff(t) > 0) or np.all(np.diff(t) < 0)):
            return
        try:
            if n >= 2:
                sl = system[t[0]:t[-1]]
                if not (len(sl.t) == n and bitwise_equal(np.asarray(sl.t), np.asarray(t)) and bitwise_equal(np.asarray(sl.y), np.asarray(y))):
                    world.violate(P, P + ".whole_run_slice", "%s: system[t[0]:t[-1]] returned %d rows, the run has %d recorded rows" % (where, len(sl.t), n))
            got = system[n - 1]
            if not (bitwise_equal(np.asarray(got.t), np.asarray(t[-1])) and bitwise_equal(np.asarray(got.y), np.asarray(y[-1]))):
                world.violate(P, P + ".index", "%s: system[%d] is not the last recorded row" % (where, n - 1))
            try:
                system[n]
                world.violate(P, P + ".index_out_of_range", "%s: system[%d] did not raise IndexError with %d recorded rows" % (where, n, n))
            except IndexError:
                pass
            if len(system) != n or sum(1 for _ in system) != n:
                world.violate(P, P + ".iteration", "%s: len/iteration disagree with the %d recorded rows" % (where, n))
        except (BudgetExceeded, WallTimeout):
            raise
        except Exception as e:
            world.violate(P, P + ".time_lookup", "%s: lookup raised %s: %s" % (where, type(e).__name__, str(e)[:80]))

    def after_build(self, world):
        self._whole_run(world, world.system, "before the first integrate")

    def on_step(self, world, system):
        self.steps_seen += 1
        if self.steps_seen <= 6 or self.steps_seen % 7 == 0:
            world.probe("lookup_from_callback")
            self._whole_run(world, system, "inside integrate (callback after step %d)" % self.steps_seen)

    def after_op(self, world, i, op, pre, snap):
        P = self.prop
        sysm = world.system
        t, y = snap["t"], snap["y"]
        n = snap["n"]
        # integer indices like a sequence
        # (the integer is handed over as a Python int or - what numpy's own searches and reductions return - as a numpy integer; which
        # form is used for which index follows from the scenario, not from a draw at run time)
        forms = (int, np.int64, int, np.int32, np.intp, np.uint8)
        for idx in range(-n - 2, n + 3):
            want_err = not (-n <= idx < n)
            form = forms[(idx + i + world.scn.get("seed", 0)) % len(forms)]
            key = idx if (form is np.uint8 and not (0 <= idx < 256)) else form(idx)
            try:
                got = sysm[key]
                err = None
            except IndexError:
                got, err = None, "IndexError"
            except Exception as e:      # any other exception type is wrong as well
                got, err = None, type(e).__name__
            if want_err:
                if err != "IndexError":
                    world.violate(P, P + ".index_out_of_range", "index %r (%s) on %d rows: expected IndexError, got %s" % (idx, type(key).__name__, n, err or "a value"))
                    break
            else:
                if err is not None:
                    world.violate(P, P + ".index_value", "index %r (%s) on %d rows raised %s" % (idx, type(key).__name__, n, err))
                    break
                if not (bitwise_equal(got.t, t[idx]) and bitwise_equal(got.y, y[idx])):
                    world.violate(P, P + ".index_value", "index %r (%s) returned t=%r, expected row %d t=%r" % (idx, type(key).__name__, _f(got.t), idx % n, _f(t[idx])))
                    break
        # iteration
        try:
            items = []
            for k, it in enumerate(sysm):
                items.append(it)
                if k > n + 3:
                    break
            ok = len(items) == n and all(bitwise_equal(it.t, t[k]) and bitwise_equal(it.y, y[k]) for k, it in enumerate(items))
            if not ok:
                world.violate(P, P + ".iteration", "iteration yielded %d items for %d rows (or wrong rows)" % (len(items), n))
        except Exception as e:
            world.violate(P, P + ".iteration", "iteration raised %s" % type(e).__name__)
        if n < 2:
            return
        dtype = t.dtype
        lo, hi = (t[0], t[-1]) if t[0] <= t[-1] else (t[-1], t[0])
        span = hi - lo
        # query times: on samples, between, midpoints, outside
        qs = []
        for j in range(n - 1):
            a, b = t[j], t[j + 1]
            qs.append(a)
            qs.append(a + (b - a) * dtype.type(0.25))
            qs.append(a + (b - a) * dtype.type(0.5))
            qs.append(a + (b - a) * dtype.type(0.8125))
        qs.append(t[-1])
        qs.append(lo - span * dtype.type(0.3))
        qs.append(hi + span * dtype.type(0.3))
        if len(qs) > 60:
            step = len(qs) // 60 + 1
            qs = qs[::step] + qs[-3:]
        dense = bool(world.scn["system"].get("dense")) and sysm.sol is not None
        mono = np.all(np.diff(t) > 0) or np.all(np.diff(t) < 0)
        if not mono:
            return      # reversal histories: "nearest in time" is ambiguous, not claimed
        for q in qs:
            q = np.asarray(q, dtype=dtype)[()]
            try:
                got = sysm[q]
            except Exception as e:
                world.violate(P, P + ".time_lookup", "lookup at t=%r raised %s: %s" % (_f(q), type(e).__name__, str(e)[:80]))
                break
            if dense:
                inside = lo <= q <= hi
                if not inside:
                    continue        # outside the integrated range the statement does not say what is returned
                want = sysm.sol(q)
                if not (bitwise_equal(np.asarray(got.y), np.asarray(want))):
                    world.violate(P, P + ".time_lookup_dense", "system[%r].y differs from sol(%r)" % (_f(q), _f(q)))
                    break
            else:
                dist = np.abs(t - q)
                dmin = dist.min()
                cands = [k for k in range(n) if dist[k] == dmin]
                hit = [k for k in cands if bitwise_equal(np.asarray(got.t), t[k]) and bitwise_equal(np.asarray(got.y), y[k])]
                if not hit:
                    k0 = cands[0]
                    world.violate(P, P + ".time_lookup_nearest", "system[%r] returned t=%r, nearest recorded sample is t[%d]=%r (grid %s)"
                                  % (_f(q), _f(got.t), k0, _f(t[k0]), "increasing" if t[0] < t[-1] else "decreasing"))
                    break
        if dense and n >= 2 and not world.scn["system"]["method"].startswith("Rich:") and not any(fr["fault"]["kind"] == "spike" for fr in world.fired):
            # "returns the dense solution there": at a recorded time that is the recorded state (to rounding), for a scalar time and for an
            # array of times alike - checked against the rows, not against sol (which the lookup itself goes through)
            ks = sorted(set([0, 1, n // 2, n - 2, n - 1] + list(range(0, n, max(1, n // 8)))))
            f_ = world.f_math
            smax = max(float(np.max(np.abs(np.asarray(f_(t[k_], y[k_]), dtype=np.float64)))) for k_ in ks)
            ymax_ = float(np.max(np.abs(y)))
            tmax_ = max(1.0, float(np.max(np.abs(np.asarray(t, dtype=np.float64)))))
            bnd = 64 * eps_of(dtype) * (ymax_ + tmax_ * smax + 1e-300)
            try:
                arr_res = sysm[np.asarray([t[k_] for k_ in ks], dtype=dtype)]
                arr_y = np.asarray(arr_res.y)
            except Exception as e:
                arr_y = None
                world.violate(P, P + ".time_lookup", "lookup with an array of %d recorded times raised %s: %s" % (len(ks), type(e).__name__, str(e)[:80]))
            for pos, k_ in enumerate(ks):
                got1 = np.asarray(sysm[t[k_]].y)
                e1 = float(np.max(np.abs(np.asarray(got1 - y[k_], dtype=np.float64))))
                if e1 > bnd:
                    world.violate(P, P + ".time_lookup_dense", "system[t[%d]=%r].y differs from the recorded state by %.3e (> %.3e)" % (k_, _f(t[k_]), e1, bnd))
                    break
                if arr_y is not None and arr_y.shape[0] == len(ks):
                    e2 = float(np.max(np.abs(np.asarray(arr_y[pos] - y[k_], dtype=np.float64))))
                    if e2 > bnd:
                        world.violate(P, P + ".time_lookup_dense", "system[array of times][%d] (t=%r) differs from the recorded state by %.3e (> %.3e)" % (pos, _f(t[k_]), e2, bnd))
                        break
        # slices spanning the whole run, end points in either order
        for (a, b) in ((t[0], t[-1]),):        # from the start to the end of the run, in the order of integration
            try:
                sl = sysm[a:b]
                ok = len(sl.t) == n and bitwise_equal(np.asarray(sl.t), t) and bitwise_equal(np.asarray(sl.y), y)
            except Exception as e:
                ok = False
            if not ok:
                world.violate(P, P + ".whole_run_slice", "system[%r:%r] did not return the whole run of %d rows" % (_f(a), _f(b), n))
                break


class _MathRHS(object):
    def __init__(self, problem):
        self.problem = problem

    def __call__(self, t, y, **kw):
        return self.problem.f(t, y, **kw)


def solve_residual(world, sv):
    """||F(x)||_2 of a recorded stage solve, recomputed with the mathematical rhs (None if not available)."""
    integ, args = sv.get("f_self"), sv.get("args")
    if integ is None or args is None or "x" not in sv:
        return None
    rhs, t0, y0, h, consts = args
    Fx = integ.algebraic_system(np.asarray(sv["x"]), _MathRHS(world.problem), t0, y0, h, consts)
    return float(np.linalg.norm(np.asarray(Fx, dtype=np.float64)))


# ======================================================================================== C04
class FixedStep(Monitor):
    """C04: a non-adaptive method takes exactly the requested step (except the last one of a call); an implicit method may
    only shorten a step whose stage equations failed to converge; no step is ever longer than requested."""

    def __init__(self, prop="C04"):
        self.prop = prop

    def before_op(self, world, i, op, pre):
        self.ic0 = len(world.icalls)
        if not hasattr(self, "requested"):
            # the step the USER requested: the constructor's dt, until the user assigns another one.  It is tracked here, not read
            # back from the system before each call (a library that lets a clamped final step leak into dt would vouch for itself)
            self.requested0 = np.abs(np.array(world.system.dt, copy=True))
            self.requested = self.requested0
            self.allowed_extra = []
        self.start = pre["t"][-1]

    def after_op(self, world, i, op, pre, snap):
        if snap["kind"] == "reset":
            self.requested = self.requested0
            self.allowed_extra = []
            return
        if snap["kind"] == "set":
            if op.get("attr") == "dt":
                self.requested = np.abs(np.array(world.system.dt, copy=True))
                self.allowed_extra = []
            return
        if snap["kind"] != "integrate":
            return
        P = self.prop
        integ = world.system.integrator
        if getattr(integ, "is_adaptive", False) or world.scn["system"]["method"].startswith("Rich:"):
            self.requested = None       # the controller owns dt from here on
            return
        if op.get("callbacks") and "plan" in op["callbacks"]:
            self.requested = None       # user intervention
            return
        if self.requested is None:
            return
        target = op_target(world, op)
        dtype = snap["t"].dtype
        eps = eps_of(dtype)
        # when dt exceeds the span the library shortens it (the request "dt <= span" is violated: not in this property's quantifier)
        req = abs(_f(self.requested))
        span = abs(target - _f(self.start)) if np.isfinite(target) else np.inf
        if req > span:
            self.requested = None
            return
        calls = [c for c in world.icalls[self.ic0:] if c["depth"] == 0 and c["nested"] == 1]
        direction = sgn(target - _f(self.start))
        cur = np.abs(np.asarray(self.requested))       # the requested magnitude
        allowed = [cur] + self.allowed_extra             # plus every shortened step accepted after failed solves (the library may keep it)
        for n_, c in enumerate(calls):
            atts = c["attempts"]
            if not atts:
                continue
            h0 = atts[0]["h"]
            is_last = (n_ == len(calls) - 1)
            remaining = np.abs(np.asarray(target, dtype=dtype) - c["t0"]) if np.isfinite(target) else None
            if sgn(h0) != direction:
                world.violate(P, P + ".step_sign", "step attempted with h=%r against the direction of integration (%d)" % (_f(h0), direction))
                break
            if abs(_f(h0)) > _f(cur) * (1 + 0.0) and not bitwise_equal(np.abs(h0), cur):
                world.violate(P, P + ".never_longer", "step %d attempted with |h|=%r, longer than the step in force %r (requested dt=%r, %s)"
                              % (n_, abs(_f(h0)), _f(cur), req, c["cls"]))
                break
            if not any(bitwise_equal(np.abs(h0), a_) for a_ in allowed):
                # neither the requested step nor one shortened by an earlier failed solve: only the final clamp of the call
                clamp = remaining is not None and bitwise_equal(np.abs(h0), remaining)
                if not clamp:
                    world.violate(P, P + ".exact_step", "step %d attempted with |h|=%r instead of the requested %r (t=%r, target %r, %s)"
                                  % (n_, abs(_f(h0)), _f(cur), _f(c["t0"]), target, c["cls"]))
                    break
            # retries inside the call: only after a failed solve, and only shorter
            prev = h0
            for j in range(1, len(atts)):
                a_prev, a = atts[j - 1], atts[j]
                # "failed to converge" is judged from the solver seam: the solver said so, raised, was made to fail by injection,
                # or the independently recomputed residual of its answer is above the tolerance it was asked for
                failed = any((not sv.get("success", True)) or sv.get("raised") for sv in a_prev["solves"]) or len(a_prev["solves"]) > 1 or not a_prev["done"]
                if not failed and a_prev["solves"]:
                    sv = a_prev["solves"][-1]
                    r_ = solve_residual(world, sv)
                    if r_ is None or sv.get("tol") is None or not (r_ <= sv["tol"]):
                        failed = True
                    else:
                        world.probe("retry_after_converged_solve")
                if not failed:
                    world.violate(P, P + ".retry_without_failure", "step %d re-attempted (h=%r -> %r) although its stage solve had succeeded" % (n_, _f(prev), _f(a["h"])))
                    break
                if abs(_f(a["h"])) > abs(_f(prev)):
                    world.violate(P, P + ".never_longer", "retry of step %d uses |h|=%r > %r" % (n_, abs(_f(a["h"])), abs(_f(prev))))
                    break
                prev = a["h"]
            if c["ok"]:
                world.probe("fixed_steps_checked")
                if not bitwise_equal(np.abs(c["dTime"]), np.abs(atts[-1]["h"])):
                    world.violate(P, P + ".recorded_is_attempted", "recorded dTime %r differs from the last attempted h %r" % (_f(c["dTime"]), _f(atts[-1]["h"])))
                # the step in force for the next call: unchanged, or the shortened step after failed solves
                if len(atts) > 1:
                    allowed.append(np.abs(c["dTime"]))
                    self.allowed_extra.append(np.abs(c["dTime"]))
                    world.probe("implicit_step_shortened")
        # recorded grid: all steps but the last equal the step in force
        t = snap["t"]
