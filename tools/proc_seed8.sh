#!/bin/bash
# verify a sub-agent's seeded change (worktree /tmp/seedwt/<ID>) and run the property's quick check against it
# usage: tools/proc_seed8.sh <ID> [property]      e.g. C18g
P=$1; PROP=${2:-${P:0:3}}
W=/tmp/seedwt/$P
cd $W || exit 1
git diff HEAD -- desolver > /tmp/seed_$P.diff
echo "== $P: $(git status --short | grep -v seeded_out | tr '\n' ' ') ($(wc -l < /tmp/seed_$P.diff) diff lines)"
PYTHONPATH=$W timeout 900 /venv/bin/python seeded_out/demo.py > /tmp/seed_${P}_with.log 2>&1; echo "demo WITH change exit=$? : $(tail -1 /tmp/seed_${P}_with.log | cut -c1-200)"
git apply -R /tmp/seed_$P.diff
PYTHONPATH=$W timeout 900 /venv/bin/python seeded_out/demo.py > /tmp/seed_${P}_without.log 2>&1; echo "demo WITHOUT change exit=$? : $(tail -1 /tmp/seed_${P}_without.log | cut -c1-200)"
git apply /tmp/seed_$P.diff
echo "suite: $(PYTHONPATH=$W timeout 2400 /venv/bin/python -m pytest -q -p no:cacheprovider --timeout=900 -x -n 6 2>&1 | grep -E 'passed|failed' | tail -1)"
cd /verif
cp evidence/$PROP.json /tmp/evbak_$PROP.json
ls replays/$PROP 2>/dev/null | sort > /tmp/rp_before_$P
DSIM_REPO=$W timeout 1500 ./check $PROP > /tmp/seedchk_$P.log 2>&1; echo "my check $PROP rc=$?"
grep -A1 '^VIOLATION' /tmp/seedchk_$P.log | head -4 | cut -c1-400
cp /tmp/evbak_$PROP.json evidence/$PROP.json
