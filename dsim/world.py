"""World: one system under simulation, its simulated peers, fault table, logs and monitors.

A run is a pure function of (scenario JSON, code of /repo).  No PRNG, clock or environment
is consulted while a world runs.
"""
import hashlib
import signal
import numpy as np

from . import seams
from .peers import SimRHS, SimJac, SimEvent, Boom, BudgetExceeded, WallTimeout
from .problems import make_problem
from .refmodels import canon_bytes


def _c(x):
    return np.array(x, copy=True)


def method_class(name):
    """Resolve a method spec: 'RK45CKSolver', alias 'RK45', or 'Rich:<Base>:<k>'."""
    import desolver as de
    if name.startswith("Rich:"):
        _, base, k = name.split(":")
        return seams.richardson(method_class(base), int(k))
    for m in de.integrators.explicit_methods() + de.integrators.implicit_methods():
        if m.__name__ == name:
            return m
    return de.integrators.available_methods(False)[name]


class SimCallback(object):
    def __init__(self, world, name, op):
        self.world = world
        self.name = name
        self.op = op
        self.invocations = 0

    def __call__(self, system):
        w = self.world
        self.invocations += 1
        k = w.peer_call("callback")
        # what a user callback can see through the public API
        n = len(system)
        rec = {"cb": self.name, "seq": w.seq, "len": n, "t_last": _c(system.t[-1]), "y_last": _c(system.y[-1]),
               "t_len": len(system.t), "y_len": len(system.y), "item_t": _c(system[-1].t), "item_y": _c(system[-1].y),
               "dt_seen": _c(system.dt), "nfev": int(system.nfev), "rhs_completed": w.rhs_completed,
               "icalls_done": w.top_icalls_done}
        w.cb_log.append(rec)
        flt = w.fault_for("callback", k)
        if flt is not None and flt["kind"] in ("raise", "kbdint"):
            w.fire(flt)
            raise w.make_exc(flt)
        if self.name == "plan":
            plan = self.op.get("plan") or []
            j = self.invocations - 1
            if j < len(plan) and plan[j] is not None:
                system.dt = plan[j]
                rec["dt_set"] = _c(system.dt)
                w.probe("callback_sets_dt")


def typed_target(t, t_type):
    """the number `t` as the kind of object a caller may hand to integrate(t): numpy scalars of any float type, a 0-d array, an int"""
    if t_type == "f64":
        return np.float64(t)
    if t_type == "f32":
        return np.float32(t)
    if t_type == "ld":
        return np.longdouble(t)
    if t_type == "arr0":
        return np.asarray(t, dtype=np.float64)
    if t_type == "int":
        return int(t)
    raise ValueError("unknown t_type %r" % (t_type,))


class World(object):
    def __init__(self, scn, monitors=(), faults=None, wall_s=20, keep_calls=True):
        self.scn = scn
        self.problem = make_problem(scn["problem"])
        self.faults = list(scn.get("faults", [])) if faults is None else list(faults)
        self.knobs = dict(scn.get("knobs", {}))
        self.alloc_cap = self.knobs.get("alloc_cap")
        self.monitors = list(monitors)     # objects with on_step(world, system) / after_op(world, i, op, pre, snap)
        self.wall_s = wall_s
        self.keep_calls = keep_calls
        # logs
        self.seq = 0
        self.budget = int(scn.get("budget", 200000))
        self.op_budget = None
        self.op_seq0 = 0
        self.foreign = False
        self.row_consts = []
        self.op_index = -1
        self.op_counts = {}
        self.calls = []            # peer call records of the current op
        self.calls_by_op = {}
        self.fired = []
        self.raised = []           # exception objects injected
        self.raised_by_op = {}
        self.icalls = []           # integrator call records (all depths)
        self.icall_stack = []
        self.top_icalls_done = 0
        self.solves = []
        self.jacreqs = []
        self.cb_log = []
        self.snaps = []
        self.violations = []
        self.probes = {}
        self.ratios = {}
        self.rhs_completed_at_reset = 0
        self.jacreq_at_reset = 0
        self.jacreq_at_build = 0
        self.harness_error = None
        self.rhs_completed = 0
        self.jac_completed = 0
        self.jacreq_returned = 0
        self.in_solver = False
        self.alloc_depth = 0
        self.alloc_calls = 0
        self.alloc_fault_armed = False
        self.alloc_fault = None
        self.minpack_calls = 0
        self.system = None
        self.events = []
        self.sim_time = 0.0
        self.caller_y0 = None
        self.caller_constants = None
        self.digest = hashlib.sha256()

    # ------------------------------------------------------------------ bookkeeping
    def probe(self, name, n=1):
        self.probes[name] = self.probes.get(name, 0) + n

    def ratio(self, oracle, value):
        """record observed/bound for a numeric oracle (calibration statistics)."""
        value = float(value)
        if not (value <= self.ratios.get(oracle, -1.0)):
            self.ratios[oracle] = value

    def violate(self, prop, oracle, detail, op=None, facts=None):
        v = {"property": prop, "oracle": oracle, "op": self.op_index if op is None else op, "detail": detail}
        if facts:
            v["facts"] = facts
        self.violations.append(v)

    def peer_call(self, seam):
        self.seq += 1
        if self.seq > self.budget:
            raise BudgetExceeded("peer-call budget %d exhausted" % self.budget)
        if self.op_budget is not None and self.seq - self.op_seq0 > self.op_budget:
            # bounded liveness: a call made after the last fault has to get where the fault-free twin got, within a generous multiple
            # of the peer calls the twin needed for the WHOLE history (deterministic: counted in peer calls, not in seconds)
            # (a matter of C12 - "calling integrate again continues correctly" - and, for histories with terminal events, of C09; a check of
            # another property that re-uses such histories, like C20, does not report it)
            P = self.scn.get("profile", "C12")
            P = P if P in ("C09", "C12") else "C12"
            self.violate(P, P + ".resume_makes_progress", "op %d made %d peer calls (more than %d = 50 x the fault-free twin's whole history + 5000) and has "
                         "not returned: t=%r, dt=%r" % (self.op_index, self.seq - self.op_seq0, self.op_budget,
                                                         float(np.asarray(self.system.t[-1], dtype=np.float64)), float(np.asarray(self.system.dt, dtype=np.float64))))
            raise BudgetExceeded("per-op liveness budget %d exhausted" % self.op_budget)
        k = self.op_counts.get(seam, 0) + 1
        self.op_counts[seam] = k
        return k

    def log_call(self, seam, t, y, kw, tag=None):
        self.digest.update(("%s|%d|%r|" % (seam, self.seq, tag)).encode())
        self.digest.update(np.asarray(t, dtype=np.float64).tobytes())
        if y is not None:
            self.digest.update(canon_bytes(y))
        if not self.keep_calls:
            return None
        rec = {"seam": seam, "seq": self.seq, "t": _c(t), "y": None if y is None else _c(y), "kw": dict(kw), "tag": tag,
               "done": False, "icall": self.icall_stack[-1]["id"] if self.icall_stack else None,
               "attempt": (len(self.icall_stack[-1]["attempts"]) - 1) if self.icall_stack else None,
               "jacreq": self.jacreqs[-1]["id"] if (self.jacreqs and self.jacreqs[-1]["open"]) else None,
               "in_solver": self.in_solver}
        self.calls.append(rec)
        return rec

    def fault_for(self, seam, k):
        for flt in self.faults:
            if flt["op"] == self.op_index and flt["seam"] == seam and flt["at"] == k:
                return flt
        return None

    def fire(self, flt):
        phase = self.phase()
        self.fired.append({"fault": dict((k, v) for k, v in flt.items() if k != "_exc"), "seq": self.seq, "phase": phase})
        self.probe("fault_" + flt["seam"] + "_" + flt["kind"])

    def phase(self):
        """Classify where in the control flow the world currently is (crash phase)."""
        if self.icall_stack:
            top = self.icall_stack[-1]
            att = len(top["attempts"])
            ph = "icall"
            if self.in_solver:
                ph = "newton"
            elif self.jacreqs and self.jacreqs[-1]["open"]:
                ph = "jacobian"
            elif att == 0:
                ph = "pre_step"
            elif att == 1:
                ph = "first_attempt"
            else:
                ph = "retry_attempt"
            if len(self.icall_stack) > 1:
                ph = "sub_" + ph
            if self.nested_integrate > 1:
                ph = "rollback_" + ph
            return ph
        if self.jacreqs and self.jacreqs[-1]["open"]:
            return "jacobian"
        if self.nested_integrate > 1:
            return "rollback_other"
        return "outside_step"

    def make_exc(self, flt):
        tag = "%s@%s/op%s" % (flt["seam"], flt["at"], self.op_index)
        if flt["kind"] == "kbdint":
            e = KeyboardInterrupt("injected " + tag)
        else:
            e = Boom(tag)
        self.raised.append(e)
        self.raised_by_op.setdefault(self.op_index, []).append(e)
        return e

    # ------------------------------------------------------------------ seams call back here
    def begin_icall(self, integ, kind, t, y, h):
        rec = {"id": len(self.icalls), "op": self.op_index, "kind": kind, "depth": len(self.icall_stack),
               "t0": _c(t), "y0": _c(y), "h_req": _c(h), "attempts": [], "ok": None, "solves": [],
               "nested": self.nested_integrate, "seq0": self.seq, "cls": type(integ).__name__, "integ": integ,
               "rhs_k0": self.op_counts.get("rhs", 0)}
        self.icalls.append(rec)
        self.icall_stack.append(rec)
        return rec

    def end_icall(self, rec, integ, out, exc):
        self.icall_stack.pop()
        rec["ok"] = exc is None
        rec["seq1"] = self.seq
        rec["rhs_k1"] = self.op_counts.get("rhs", 0)
        if exc is not None:
            rec["exc"] = type(exc).__name__
            return
        new_dt, (dT, dS) = out
        rec["new_dt"] = _c(new_dt)
        rec["dTime"] = _c(dT)
        rec["dState"] = _c(dS)
        if rec["kind"] == "rk":
            rec["stages"] = _c(integ.stage_values)
            rec["implicit"] = bool(integ.is_implicit)
            rec["adaptive"] = bool(integ.is_adaptive)
            rec["newton_ok"] = integ.solver_dict.get("newton_iteration_success")
        rec["initial_rhs"] = None if integ.initial_rhs is None else _c(integ.initial_rhs)
        rec["final_rhs"] = None if integ.final_rhs is None else _c(integ.final_rhs)
        if rec["depth"] == 0:
            self.top_icalls_done += 1
            self.sim_time += abs(float(dT))

    def begin_attempt(self, integ, h):
        top = self.icall_stack[-1] if self.icall_stack else None
        att = {"h": _c(h), "seq0": self.seq, "solves": [], "done": False}
        if top is not None:
            top["attempts"].append(att)
        return att

    def end_attempt(self, att, integ):
        att["done"] = True
        att["seq1"] = self.seq
        att["dTime"] = _c(integ.dTime)
        sd = getattr(integ, "solver_dict", None) or {}
        att["newton_ok"] = sd.get("newton_iteration_success")

    def solver_seam(self, orig, f, x0, a, kw):
        n = self.peer_count_only("solver")
        flt = self.fault_for("solver", n)
        rec = {"id": len(self.solves), "op": self.op_index, "n": n, "tol": None if kw.get("tol") is None else float(kw.get("tol")),
               "x0_shape": tuple(np.shape(x0)), "dtype": str(np.asarray(x0).dtype), "injected": None, "raised": None}
        self.solves.append(rec)
        if self.icall_stack:
            top = self.icall_stack[-1]
            top["solves"].append(rec)
            if top["attempts"]:
                top["attempts"][-1]["solves"].append(rec)
        if flt is not None and flt["kind"] == "linalg":
            self.fire(flt)
            rec["injected"] = "linalg"
            raise np.linalg.LinAlgError("injected solver failure")
        fcall = f
        if flt is not None and flt["kind"] == "fnan":
            state = {"n": 0}
            at = int(flt.get("fcall", 2))

            def fcall(x, *aa, **kk):
                state["n"] += 1
                out = f(x, *aa, **kk)
                if state["n"] == at:
                    self.fire(flt)
                    rec["injected"] = "fnan"
                    return out * np.nan
                return out
        self.in_solver = True
        try:
            res = orig(fcall, x0, *a, **kw)
        except BaseException as e:
            rec["raised"] = type(e).__name__
            raise
        finally:
            self.in_solver = False
        x, info = res
        success = bool(info[0])
        rec["real_success"] = success
        rec["prec"] = float(info[4])
        rec["x_shape"] = tuple(np.shape(x))
        rec["x"] = _c(x)
        rec["args"] = kw.get("additional_args")
        rec["f_self"] = getattr(f, "__self__", None)
        if flt is not None and flt["kind"] == "nonconv":
            self.fire(flt)
            rec["injected"] = "nonconv"
            info = (False,) + tuple(info[1:])
            res = (x, info)
        rec["success"] = bool(info[0])
        return res

    def peer_count_only(self, seam):
        k = self.op_counts.get(seam, 0) + 1
        self.op_counts[seam] = k
        return k

    def minpack_seam(self, res):
        n = self.peer_count_only("minpack")
        flt = self.fault_for("minpack", n)
        if flt is not None:
            self.fire(flt)
            res.success = False
            res.message = "injected MINPACK failure"
            self.probe("minpack_failed_injected")
        return res

    def begin_jacreq(self, rhs, t, y):
        rec = {"id": len(self.jacreqs), "op": self.op_index, "t": _c(t), "y": None if y is None else _c(y), "open": True,
               "seq0": self.seq, "returned": False}
        self.jacreqs.append(rec)
        return rec

    def end_jacreq(self, rec, out):
        rec["open"] = False
        rec["returned"] = True
        rec["seq1"] = self.seq
        rec["out"] = out
        if not self.foreign:
            self.jacreq_returned += 1

    def arm_alloc_fault(self):
        flt = self.fault_for("alloc", self.op_counts.get("alloc", 0) + 1)
        self.op_counts["alloc"] = self.op_counts.get("alloc", 0) + 1
        if flt is not None:
            self.alloc_fault_armed = True
            self.alloc_fault = flt

    # ------------------------------------------------------------------ running
    nested_integrate = 0

    def build(self):
        import desolver as de
        s = self.scn["system"]
        p = self.problem
        self.rhs = SimRHS(self, p)
        self.jac_peers = []
        jm = s.get("jac", "none")
        if jm == "attr":
            J = SimJac(self, p, "attr")
            self.jac_peers.append(J)
            self.rhs.jac = J
        y0 = p.y0()
        self.caller_y0 = y0
        self.caller_y0_copy = _c(y0)
        consts = dict(s.get("constants") or {})
        self.caller_constants = consts
        self.caller_constants_copy = dict(consts)
        dt = p.dtype.type(s["dt"])
        kw = dict(t=(s["t0"], s["tf"]), dense_output=bool(s.get("dense", False)), dt=dt, constants=consts)
        if s.get("rtol") is not None:
            kw["rtol"] = s["rtol"]
        if s.get("atol") is not None:
            kw["atol"] = s["atol"]
        self.events = [SimEvent(self, i, d) for i, d in enumerate(self.scn.get("events", []))]
        rhs_obj = self.rhs
        pre = s.get("prewrapped")
        if pre:
            # the user wraps the function in a DiffRHS themselves (what rhs_prettifier does) and uses the wrapper before the system
            # exists: those evaluations are not "made through the system since construction"
            rhs_obj = de.DiffRHS(self.rhs)
            for _ in range(int(pre.get("rhs_calls", 0))):
                rhs_obj(p.dtype.type(s["t0"]), y0, **consts)
            for _ in range(int(pre.get("jac_calls", 0))):
                rhs_obj.jac(p.dtype.type(s["t0"]), y0, **consts)
            self.probe("rhs_wrapper_used_before_construction")
        self.rhs_completed_at_reset = self.rhs_completed
        self.jacreq_at_reset = self.jacreq_at_build = self.jacreq_returned
        self.system = de.OdeSystem(rhs_obj, y0, **kw)
        self._wrap_integrate(self.system)
        if s.get("method") is not None:
            self.system.method = method_class(s["method"])
        if s.get("kick_mask") is not None:
            self.system.set_kick_vars(np.asarray(s["kick_mask"], dtype=bool))
        if jm == "hook":
            J = SimJac(self, p, "hook")
            self.jac_peers.append(J)
            self.system.equ_rhs.hook_jacobian_call(J)
        elif jm == "assign":
            J = SimJac(self, p, "assign")
            self.jac_peers.append(J)
            self.system.equ_rhs.jac = J
        self.apply_knobs()

    def _wrap_integrate(self, system):
        """instance-level observer of (possibly nested) integrate calls: depth only."""
        orig = system.integrate
        w = self

        def integrate(*a, **kw):
            w.nested_integrate += 1
            if w.nested_integrate > 1:
                w.probe("terminal_rollback")
                w.op_counts["nested_integrate"] = w.op_counts.get("nested_integrate", 0) + 1
            try:
                return orig(*a, **kw)
            finally:
                w.nested_integrate -= 1
        system.integrate = integrate

    def apply_knobs(self):
        integ = self.system.integrator
        sd = getattr(integ, "solver_dict", None)
        if sd is None:
            return
        keep = getattr(integ, "solver_dict_keep_keys", None)
        if self.knobs.get("retry_cap") is not None and keep is not None:
            only = self.knobs.get("retry_cap_ops")
            in_force = only is None or self.op_index in only
            sd["num_step_retries"] = int(self.knobs["retry_cap"]) if in_force else 64
            keep.add("num_step_retries")
        if self.knobs.get("newton_cap") is not None and keep is not None and "newton_iterations" in sd:
            sd["newton_iterations"] = int(self.knobs["newton_cap"])

    def _alarm(self, *a):
        raise WallTimeout("wall-clock backstop")

    def run(self):
        old = signal.signal(signal.SIGALRM, self._alarm)
        signal.alarm(int(self.wall_s))
        seams.CURRENT = self
        try:
            self.op_index = -1
            self.op_counts = {}
            self.build()
            self.calls_by_op[-1] = self.calls
            for m in self.monitors:
                m.after_build(self)
            for i, op in enumerate(self.scn["ops"]):
                self.do_op(i, op)
        finally:
            seams.CURRENT = None
            signal.alarm(0)
            signal.signal(signal.SIGALRM, old)
        return self

    def snapshot(self, i, op, exc):
        sysm = self.system
        sol = sysm.sol
        snap = {
            "op": i, "kind": op["op"],
            "t": _c(sysm.t), "y": _c(sysm.y), "n": len(sysm),
            "events": [(_c(e.t), _c(e.y), e.event.idx if isinstance(e.event, SimEvent) else None) for e in sysm.events],
            "status": sysm.integration_status, "success": bool(sysm.success),
            "dt": _c(sysm.dt), "nfev": int(sysm.nfev), "njev": int(sysm.njev),
            "rhs_completed": self.rhs_completed, "rhs_started": self.rhs.started, "jacreq_returned": self.jacreq_returned,
            "exc": exc, "exc_type": None if exc is None else type(exc).__name__,
            "sol_t_eval": None if (sol is None or sol.t_eval is None) else [_c(x) for x in sol.t_eval],
            "n_icalls": len(self.icalls), "n_cb": len(self.cb_log), "counts": dict(self.op_counts),
            "fired": len(self.fired),
        }
        self.digest.update(("snap|%d|%s|%s|%d|%d|" % (i, snap["status"][:40], snap["exc_type"], snap["nfev"], snap["njev"])).encode())
        self.digest.update(canon_bytes(snap["t"]))
        self.digest.update(canon_bytes(snap["y"]))
        for (te, ye, idx) in snap["events"]:
            self.digest.update(canon_bytes(te))
            self.digest.update(canon_bytes(ye))
        return snap

    def do_op(self, i, op):
        self.op_index = i
        self.op_counts = {}
        self.calls = []
        self.calls_by_op[i] = self.calls
        pre = self.snaps[-1] if self.snaps else None
        if pre is None:
            pre = self.snapshot(-1, {"op": "build"}, None)
        exc = None
        kind = op["op"]
        sysm = self.system
        if self.knobs.get("retry_cap_ops") is not None:
            self.apply_knobs()          # a retry cap that is in force for some ops only
        self.cur_events = None
        self.cur_op = op
        self.op_seq0 = self.seq
        ob_ = (self.scn.get("op_budgets") or {}).get(str(i))
        self.op_budget = int(ob_) if ob_ is not None else None
        if kind == "integrate":
            self.row_consts.append((len(sysm), dict(sysm.constants)))      # rows recorded from here on are steps of this right-hand side
            cbs = [SimCallback(self, name, op) for name in op.get("callbacks", [])]
            self.cur_callbacks = cbs
            for m in self.monitors:
                m.before_op(self, i, op, pre)
            mon = _MonitorCallback(self)
            evs = None
            if op.get("events") is not None:
                evs = [self.events[j] for j in op["events"]]
            self.cur_events = evs
            t = op.get("t")
            if t == "inf":
                t = np.inf
            elif t == "-inf":
                t = -np.inf
            elif t is not None and op.get("t_type"):
                t = typed_target(t, op["t_type"])       # the target handed over as a numpy scalar / 0-d array / int instead of a Python float
            try:
                if op.get("no_monitor"):
                    sysm.integrate(t=t, callback=cbs if cbs else None, events=evs)
                else:
                    sysm.integrate(t=t, callback=cbs + [mon], events=evs)
            except (BudgetExceeded, WallTimeout):
                raise
            except KeyboardInterrupt as e:
                exc = e
            except Exception as e:
                exc = e
        elif kind == "set":
            attr, val = op["attr"], op["value"]
            try:
                if attr == "method":
                    sysm.method = method_class(val)
                elif attr == "constants":
                    sysm.constants = dict(val)
                elif attr == "kick":
                    sysm.set_kick_vars(np.asarray(val, dtype=bool))
                else:
                    setattr(sysm, attr, val)
            except (BudgetExceeded, WallTimeout):
                raise
            except Exception as e:
                exc = e
            self.apply_knobs()
        elif kind == "reset":
            self.row_consts = []
            sysm.reset()
            self.rhs_completed_at_reset = self.rhs_completed
            self.jacreq_at_reset = self.jacreq_returned
            self.apply_knobs()
            self.probe("reset")
        elif kind == "foreign_system":
            # a SECOND system built from the very same right-hand side object and run for a while: whatever it does is no business of
            # the first system's counters (its peer calls are tallied apart)
            import desolver as de
            s_ = self.scn["system"]
            self.foreign = True
            try:
                other = de.OdeSystem(self.rhs, self.problem.y0(), t=(s_["t0"], s_["tf"]), dt=abs(s_["dt"]), rtol=s_.get("rtol"), atol=s_.get("atol"),
                                     constants=dict(s_.get("constants") or {}))
                other.method = method_class(s_["method"])
                other.integrate(s_["t0"] + (s_["tf"] - s_["t0"]) * op.get("frac", 0.3))
                if op.get("reset_other"):
                    other.reset()
            except (BudgetExceeded, WallTimeout):
                raise
            except Exception as e:
                exc = e
            finally:
                self.foreign = False
        elif kind == "del_constants":
            del sysm.constants          # the documented way to drop the constants: the right-hand side falls back to its defaults
        elif kind == "jac_hook":
            J = SimJac(self, self.problem, "hook%d" % i)
            self.jac_peers.append(J)
            sysm.equ_rhs.hook_jacobian_call(J)
        elif kind == "jac_unhook":
            sysm.equ_rhs.unhook_jacobian_call()
        else:
            raise ValueError("unknown op %r" % (kind,))
        snap = self.snapshot(i, op, exc)
        self.snaps.append(snap)
        for m in self.monitors:
            m.after_op(self, i, op, pre, snap)
        return snap

    # helpers for oracles
    def consts_at(self):
        return dict(self.system.constants)

    def consts_for_row(self, row):
        """constants in force when the step that produced recorded row `row` was taken"""
        out = None
        for start, c in self.row_consts:
            if start <= row:
                out = c
        return dict(out) if out is not None else dict(self.system.constants)

    def f_math(self, t, y):
        return self.problem.f(t, y, **self.system.constants)

    def hexdigest(self):
        return self.digest.hexdigest()


class _MonitorCallback(object):
    """In-loop monitor: runs after every recorded step, exactly as a user callback does.

    It only reads through the public API and never raises (a raise would be a fault)."""

    def __init__(self, world):
        self.world = world

    def __call__(self, system):
        w = self.world
        for m in w.monitors:
            try:
                m.on_step(w, system)
            except (BudgetExceeded, WallTimeout):
                raise
            except Exception as e:  # a bug in a monitor is a harness error, not a fault
                import traceback
                w.harness_error = traceback.format_exc()
                raise _HarnessAbort(w.harness_error)


class _HarnessAbort(BaseException):
    pass


class Monitor(object):
    """Base class of oracle monitors."""

    def after_build(self, world):
        pass

    def before_op(self, world, i, op, pre):
        pass

    def on_step(self, world, system):
        pass

    def after_op(self, world, i, op, pre, snap):
        pass
