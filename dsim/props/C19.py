from .base import Prop
from .. import oracles


class C19(Prop):
    pid = "C19"
    quick = {"seeds": 6000, "wall_cap": 90, "chunk": 16}
    thorough = {"seeds": 120000, "wall_cap": 1500, "chunk": 32}
    level = "exploration"
    rule = ("one case = one seeded history (1-3 continued integrate(t) calls, optionally one rhs fault + resume; uniform and adaptive grids, forward and "
            "backward, dense on and off, no reversals).  After EVERY op a list-of-samples reference model is queried: all integer indices in "
            "[-len-2, len+2], iteration, time lookups on samples / between / at exact midpoints / outside the range, and whole-run slices with the end "
            "points in either order.  Non-trivial = at least one recorded step")
    assumptions = ["at an exact midpoint either neighbour is accepted", "with dense output, lookups outside the integrated range are not checked",
                   "histories with a reversal of direction are not generated (nearest in time is ambiguous there)"]

    def monitors(self, scn):
        return [oracles.Lookup("C19")]


PROP = C19()
