import copy

from .base import Prop
from ..world import World
from .. import oracles, gen


class C02(Prop):
    pid = "C02"
    quick = {"seeds": 120, "wall_cap": 90, "chunk": 4}
    thorough = {"seeds": 2400, "wall_cap": 1500, "chunk": 8}
    level = "fault_enumeration"
    rule = ("per seed one base scenario: an implicit method (16 classes; float64 -> MINPACK path, longdouble -> built-in dogleg path; FD or user Jacobian; "
            "Newton-cap and retry-cap knobs) or an explicit/splitting method on a random smooth program.  For implicit bases the fault-free run is "
            "executed once to count its stage solves, then ONE DERIVED CASE PER STAGE-SOLVE INDEX n is run with a solver-seam fault placed on solve n "
            "(kinds cycle through forced non-convergence, LinAlgError from the seam, MINPACK failure -> fallback chain, NaN from the stage function), "
            "i.e. the fault position is enumerated exhaustively over the solves of each sampled run (capped at 40 per base).  Non-trivial = at least "
            "one recorded step and, for faulted cases, the fault actually fired; distinct = distinct canonical scenario JSON")
    assumptions = ["the reference step uses the class tables themselves (table correctness is C01, not claimed)",
                   "explicit/splitting step-formula clause is input sampling executed inside the simulator (by-product, labelled as such)",
                   "stage residual bound: 10*desired_tol + 256*eps*(1+max|k|) in max-norm, desired_tol as computed by the integrator (0.5*(atol+rtol*max|y|))"]
    KINDS = ["nonconv", "linalg", "minpack", "fnan"]

    def monitors(self, scn):
        return [oracles.StepValidity("C02")]

    def generate(self, seed, tier):
        base = gen.gen_scenario(seed, "C02")
        out = [base]
        if not gen.is_implicit(base["system"]["method"]):
            return out
        w = World(base, monitors=[])
        try:
            w.run()
        except BaseException:
            return out
        per_op = {}
        for sv in w.solves:
            per_op[sv["op"]] = max(per_op.get(sv["op"], 0), sv["n"])
        r = gen.sub(seed, "faults")
        points = [(op, n) for op, mx in sorted(per_op.items()) for n in range(1, mx + 1)]
        if len(points) > 40:
            points = sorted(r.sample(points, 40))
        for j, (op, n) in enumerate(points):
            c = copy.deepcopy(base)
            kind = self.KINDS[(j + seed) % len(self.KINDS)]
            if kind == "minpack":
                if base["problem"]["dtype"] == "longdouble":
                    kind = "nonconv"
                else:
                    # the n-th MINPACK call is made by the n-th front-end solve of a fault-free prefix
                    c["faults"] = [{"op": op, "seam": "minpack", "at": n, "kind": "fail"}]
                    out.append(c)
                    continue
            f = {"op": op, "seam": "solver", "at": n, "kind": kind}
            if kind == "fnan":
                f["fcall"] = 1 + (j % 3)
            c["faults"] = [f]
            out.append(c)
        # persistent failure: every solve of one integrator call fails -> retries exhaust -> error, nothing recorded
        if points and r.random() < 0.5:
            c = copy.deepcopy(base)
            op, n = r.choice(points)
            cap = c["knobs"].get("retry_cap") or 3
            c["knobs"]["retry_cap"] = cap
            c["faults"] = [{"op": op, "seam": "solver", "at": n + j, "kind": "nonconv"} for j in range(cap + 2)]
            out.append(c)
        return out

    def run(self, scn, res):
        w = super().run(scn, res)
        if scn.get("faults"):
            res["nontrivial"] = bool(res["nontrivial"] and w.fired)
        # exhaustion => FailedIntegration <- FailedToMeetTolerances and no row from that call
        for snap in w.snaps:
            if snap["kind"] != "integrate":
                continue
            failed = [c for c in w.icalls if c["op"] == snap["op"] and c["depth"] == 0 and c["ok"] is False and c.get("exc") == "FailedToMeetTolerances"]
            if failed:
                e = snap["exc"]
                if not (e is not None and type(e).__name__ == "FailedIntegration"):
                    res["violations"].append({"property": "C02", "oracle": "C02.exhaustion_raises", "op": snap["op"],
                                              "detail": "stage solves kept failing but integrate raised %r" % (snap["exc_type"],)})
                c = failed[-1]
                from ..refmodels import bitwise_equal
                if c["nested"] == 1 and not (bitwise_equal(snap["t"][-1], c["t0"]) and bitwise_equal(snap["y"][-1], c["y0"])):
                    res["violations"].append({"property": "C02", "oracle": "C02.exhaustion_records_nothing", "op": snap["op"],
                                              "detail": "a row was recorded from an integrator call that failed"})
        return w


PROP = C02()
