import copy

import numpy as np

from .base import Prop
from ..world import World
from ..runner import absorb
from ..refmodels import bitwise_equal, eps_of
from .. import oracles, gen

_TWIN_CACHE = {}


def strip_faults(scn):
    c = copy.deepcopy(scn)
    c["faults"] = []
    c.pop("expect", None)
    return c


def twin_of(scn, res=None):
    """fault-free twin world (cached per process by canonical scenario)."""
    from ..runner import canon
    base = strip_faults(scn)
    key = canon(base)
    if key not in _TWIN_CACHE:
        if len(_TWIN_CACHE) > 8:
            _TWIN_CACHE.clear()
        w = World(base, monitors=[])
        w.run()
        _TWIN_CACHE[key] = w
        if res is not None:
            absorb(res, w)
    return _TWIN_CACHE[key]


def cause_chain(e):
    out = []
    seen = set()
    while e is not None and id(e) not in seen:
        out.append(e)
        seen.add(id(e))
        e = e.__cause__         # "carrying the original cause": the explicit cause chain, not the implicit context
    return out


def rows_prefix(a_t, a_y, b_t, b_y):
    n = len(a_t)
    return n <= len(b_t) and bitwise_equal(a_t, b_t[:n]) and bitwise_equal(a_y, b_y[:n])


def events_prefix(a, b):
    if len(a) > len(b):
        return False
    for (ta, ya, ia), (tb, yb, ib) in zip(a, b):
        if ia != ib or not bitwise_equal(ta, tb) or not bitwise_equal(ya, yb):
            return False
    return True


class C12(Prop):
    pid = "C12"
    quick = {"seeds": 100, "wall_cap": 200, "chunk": 1}
    thorough = {"seeds": 1800, "wall_cap": 1500, "chunk": 2}
    level = "fault_enumeration"
    rule = ("per seed one short base history [integrate(t_mid)?, integrate(), reset, integrate()] (3-15 recorded steps; every method family incl. implicit "
            "with FD and user Jacobian, splitting, Richardson; both directions; dense on/off; events incl. terminal; callbacks).  The fault-free twin is "
            "run once and the number of rhs / Jacobian / event / callback calls per op is read off; then EVERY crash point is enumerated: one derived "
            "case per (seam, k) with the k-th call of that seam raising (Boom and KeyboardInterrupt alternate), capped at 120 per base by seeded "
            "sub-sampling that always keeps (up to 60) crash points on step boundaries (last call before, first/last call inside, first call after a step); 6 (quick) / 24 (thorough) two- and three-fault sequences per base (fault, resume, fault, resume) and up to 6 tolerance-failure cases (persistent rhs spikes + retry cap).  Each derived case runs the faulted "
            "world and compares it with the twin.  Non-trivial = the fault fired and at least one step was recorded in the whole history; distinct = "
            "distinct canonical scenario JSON; crash phases are classified from the trace and counted")
    assumptions = ["a fault in an event function may leave the current step recorded or not (both accepted); every other phase must leave exactly the completed steps",
                   "status/success after a successful resume are not asserted (the statement is silent)",
                   "final state after resume: equal to the twin at rounding level (64 n eps) when grids coincide for explicit fixed-step/splitting methods, otherwise within 200*(atol+rtol*|y|)*steps*amplification",
                   "injected exceptions are Exception/KeyboardInterrupt subclasses; NaN from the rhs is not a fault kind"]
    CAP = 120

    def generate(self, seed, tier):
        base = gen.gen_scenario(seed, "C12")
        try:
            w = twin_of(base)
        except BaseException:
            return [base]
        out = []
        r = gen.sub(seed, "faults")
        points = []
        for i, snap in enumerate(w.snaps):
            if snap["kind"] != "integrate" or i > base.get("fault_ops_upto", 1):
                continue
            for seam in ("rhs", "jac", "event", "callback"):
                for k in range(1, snap["counts"].get(seam, 0) + 1):
                    points.append((i, seam, k))
        # deterministic cost cap: a base history with very many peer calls or steps (tight tolerances on a low-order pair) gets fewer crash points
        cap_here = max(16, min(self.CAP, 1500000 // max(1, w.seq), 12000 // max(1, w.top_icalls_done)))
        if len(points) > cap_here:
            # crash points on the boundary of a step (last call before / first and last call inside / first call after the integrator
            # returns, i.e. while the step is being committed) are always kept; the rest is sub-sampled
            bset = set()
            for c in w.icalls:
                if c["depth"] == 0 and c.get("rhs_k1") is not None:
                    for k in (c["rhs_k0"], c["rhs_k0"] + 1, c["rhs_k1"], c["rhs_k1"] + 1):
                        bset.add((c["op"], "rhs", k))
            boundary = [j for j, p in enumerate(points) if p in bset]
            if len(boundary) > cap_here // 2:
                boundary = r.sample(boundary, cap_here // 2)
            # crash points in the rarer seams (user Jacobian, event functions, callbacks) are not left to the luck of a draw that the
            # right-hand side's many calls dominate: up to a third of the cap is reserved for them
            rare = [j for j, p in enumerate(points) if p[1] != "rhs"]
            if len(rare) > cap_here // 3:
                rare = r.sample(rare, cap_here // 3)
            taken_ = set(boundary) | set(rare)
            rest = [j for j in range(len(points)) if j not in taken_]
            keep = taken_ | set(r.sample(rest, max(0, min(len(rest), cap_here - len(taken_)))))
            points = [p for j, p in enumerate(points) if j in keep]
        live = 50 * w.seq + 5000       # bounded liveness of the calls made after the fault: a generous multiple of the twin's whole history
        for j, (i, seam, k) in enumerate(points):
            c = copy.deepcopy(base)
            c["faults"] = [{"op": i, "seam": seam, "at": k, "kind": "kbdint" if (j + seed) % 3 == 0 else "raise"}]
            if not any("plan" in (o.get("callbacks") or []) for o in c["ops"]):      # a dt assigned by a callback is the user's own step
                c["op_budgets"] = {str(q): live for q in range(i + 1, len(c["ops"])) if c["ops"][q]["op"] == "integrate"}
            out.append(c)
        # "or tolerances cannot be met": persistent rhs spikes with a small retry cap exhaust the retry loop of one step
        if gen.is_adaptive(base["system"]["method"]) and not base["system"]["method"].startswith("Rich:") and points:
            rpts = [p for p in points if p[1] == "rhs"]
            for _ in range(min(6, len(rpts))):
                i, seam, k = r.choice(rpts)
                c = copy.deepcopy(base)
                cap = r.choice([2, 3])
                c["knobs"]["retry_cap"] = cap
                c["knobs"]["retry_cap_ops"] = [i]         # the resumed call has the library's full retry budget again
                amp_ = "nan" if r.random() < 0.5 else 1e6          # huge but finite slopes, or non-finite ones
                c["faults"] = [{"op": i, "seam": "rhs", "at": k + j, "kind": "spike", "amp": amp_} for j in range(40 * (cap + 2))]
                c["tolerance_failure"] = True
                out.append(c)
        if gen.is_implicit(base["system"]["method"]) and not base["system"]["method"].startswith("Rich:") and points:
            # "or tolerances cannot be met", implicit form: every stage solve of one integrator call is made to fail (and the retry cap is
            # small): the call has to give up with an error - fixed-step implicit schemes included - and nothing of it may be recorded
            sv_by_op = {}
            for sv in w.solves:
                sv_by_op.setdefault(sv["op"], []).append(sv["n"])
            for _ in range(3):
                cand = [i_ for i_ in sv_by_op if i_ <= base.get("fault_ops_upto", 1)]
                if not cand:
                    break
                i = r.choice(sorted(cand))
                n0 = r.choice(sv_by_op[i])
                c = copy.deepcopy(base)
                cap = r.choice([2, 3])
                c["knobs"]["retry_cap"] = cap
                c["knobs"]["retry_cap_ops"] = [i]
                c["faults"] = [{"op": i, "seam": "solver", "at": n0 + j, "kind": "nonconv"} for j in range(4 * cap + 8)]
                c["tolerance_failure"] = True
                c["solver_failure_cap"] = cap
                out.append(c)
        if points:
            # fault sequences: fault, resume, fault (in the resume op), resume ...
            for _ in range(min(24 if tier == "thorough" else 6, len(points))):
                i, seam, k = r.choice(points)
                c = copy.deepcopy(base)
                c["ops"].insert(i + 1, {"op": "integrate"})
                c["faults"] = [{"op": i, "seam": seam, "at": k, "kind": "raise"},
                               {"op": i + 1, "seam": "rhs", "at": r.randrange(1, 40), "kind": r.choice(["raise", "kbdint"])}]
                if r.random() < 0.4:
                    c["ops"].insert(i + 2, {"op": "integrate"})
                    c["faults"].append({"op": i + 2, "seam": "rhs", "at": r.randrange(1, 40), "kind": "raise"})
                out.append(c)
        return out or [base]

    def monitors(self, scn):
        return [oracles.Structure("C12", in_loop=True), oracles.Dense("C12", accuracy=False)]

    def run(self, scn, res):
        P = "C12"
        w = World(scn, monitors=self.monitors(scn))
        V = res["violations"]
        try:
            w.run()
        except BaseException:
            # (a run cut short by the peer-call budget keeps what its monitors had found: the bounded-liveness oracle reports that way)
            V.extend(v for v in w.violations if v["property"] == P)
            raise
        finally:
            absorb(res, w)
            res["digest"] = w.hexdigest()
        V.extend(v for v in w.violations if v["property"] == P)

        def bad(oracle, detail, op):
            V.append({"property": P, "oracle": P + "." + oracle, "detail": detail, "op": op})

        res["nontrivial"] = bool(w.fired) and w.top_icalls_done >= 1
        res["state_keys"] = self.state_keys(scn, w)
        T = twin_of(scn, res)
        ops = scn["ops"]
        first_fault_op = min([f["fault"]["op"] for f in w.fired], default=None)
        fired_ops = set(f["fault"]["op"] for f in w.fired)
        diverged = False
        tainted = False
        for i, snap in enumerate(w.snaps):
            op = ops[i]
            tsnap = T.snaps[i] if i < len(T.snaps) else None
            if snap["kind"] == "reset":
                diverged = False
                tainted = False
                if not (snap["n"] == 1 and bitwise_equal(snap["y"][0], w.caller_y0_copy) and not snap["events"] and snap["sol_t_eval"] is None
                        and "has not been run" in snap["status"]):
                    bad("reset_pristine", "after reset(): %d rows, %d events, dense %s, status %r" % (snap["n"], len(snap["events"]), snap["sol_t_eval"] is not None, snap["status"][:40]), i)
                continue
            if snap["kind"] != "integrate":
                continue
            pre_n = w.snaps[i - 1]["n"] if i > 0 else 1
            if i in fired_ops and all(f["fault"]["kind"] in ("spike", "nonconv") for f in w.fired if f["fault"]["op"] == i):
                # ---------------- tolerances cannot be met (or the spikes were absorbed by retries)
                diverged = True
                tainted = True          # a perturbed step may have been accepted: no accuracy / twin comparison afterwards
                e = snap["exc"]
                cap_ = scn.get("solver_failure_cap")
                if cap_:
                    # an integrator call all of whose (cap) attempts had their stage solve fail must not come back with a step
                    for c in w.icalls:
                        if c["op"] == i and c["depth"] == 0 and c["ok"] and len(c["attempts"]) >= cap_ and \
                                all(a_["solves"] and all(sv.get("injected") == "nonconv" for sv in a_["solves"]) for a_ in c["attempts"]):
                            bad("tolerance_failure_raises", "op %d: an integrator call used up its %d attempts, every stage solve failed, and it still returned a step "
                                "(t=%r, h=%r); integrate() %s" % (i, len(c["attempts"]), float(np.asarray(c["t0"], dtype=np.float64)),
                                                                  float(np.asarray(c["attempts"][-1]["h"], dtype=np.float64)),
                                                                  "returned normally" if e is None else "raised %s" % snap["exc_type"]), i)
                            break
                failed_tol = [c for c in w.icalls if c["op"] == i and c["depth"] == 0 and c["ok"] is False and c.get("exc") == "FailedToMeetTolerances"]
                if failed_tol:
                    res["probes"]["tolerance_failure"] = res["probes"].get("tolerance_failure", 0) + 1
                    chain = cause_chain(e) if e is not None else []
                    if e is None or type(e).__name__ != "FailedIntegration" or not any(type(x).__name__ == "FailedToMeetTolerances" for x in chain):
                        bad("tolerance_failure_raises", "the retry loop gave up (FailedToMeetTolerances) but integrate raised %s" % (snap["exc_type"],), i)
                    if snap["success"] or (e is not None and "failed" not in snap["status"]):
                        bad("status_reports_failure", "status after a tolerance failure: %r" % snap["status"][:80], i)
                    c = failed_tol[-1]
                    if c["nested"] == 1 and not (bitwise_equal(snap["t"][-1], c["t0"]) and bitwise_equal(snap["y"][-1], c["y0"])):
                        bad("exactly_completed_steps", "after a tolerance failure the last row is not the start of the failed step", i)
                    if tsnap is not None and not op.get("events"):
                        # rows before the first spiked step are still the twin's
                        first_spike_seq = min(f["seq"] for f in w.fired if f["fault"]["op"] == i)
                        clean = [c_ for c_ in w.icalls if c_["op"] == i and c_["depth"] == 0 and c_["ok"] and c_.get("seq1", 0) < first_spike_seq]
                        nclean = pre_n + len(clean)
                        if not rows_prefix(snap["t"][:nclean], snap["y"][:nclean], tsnap["t"], tsnap["y"]):
                            bad("prefix_of_twin", "rows recorded before the first perturbed step are not a prefix of the twin's", i)
                    oracles.check_rows(w, snap, pre_n - 1, P, P + ".prefix_step") if False else None
                elif e is not None and type(e).__name__ != "FailedIntegration":
                    # garbage from the rhs may make the step fail in other ways (overflow, LinAlgError): any FailedIntegration is a legal outcome
                    bad("raises_failed_integration", "op %d raised %s under rhs spikes (expected FailedIntegration or completion)" % (i, snap["exc_type"]), i)
                continue
            if i in fired_ops:
                # ---------------- the failing call
                flt = [f for f in w.fired if f["fault"]["op"] == i and f["fault"]["kind"] != "spike"][0]
                e = snap["exc"]
                injected = list(w.raised_by_op.get(i, []))        # the fault of THIS call (an earlier call's fault is not its cause)
                if e is None:
                    # the library swallowed the fault: only legal if it was a spike-like, never for raise/kbdint
                    bad("raises", "a peer raised in op %d (%s@%d) but integrate() returned normally" % (i, flt["fault"]["seam"], flt["fault"]["at"]), i)
                else:
                    chain = cause_chain(e)
                    carries = any(any(x is inj for inj in injected) for x in chain)
                    if flt["fault"]["kind"] == "kbdint":
                        if not (isinstance(e, KeyboardInterrupt) and any(e is inj for inj in injected)):
                            bad("kbdint_propagates", "injected KeyboardInterrupt did not propagate as itself: got %s" % type(e).__name__, i)
                        if "KeyboardInterrupt" not in snap["status"]:
                            bad("status_reports_failure", "status after KeyboardInterrupt: %r" % snap["status"][:80], i)
                    else:
                        if type(e).__name__ != "FailedIntegration":
                            bad("raises_failed_integration", "expected FailedIntegration, got %s" % type(e).__name__, i)
                        if not carries:
                            bad("carries_cause", "the raised %s does not carry the injected exception in its cause chain" % type(e).__name__, i)
                        if "failed" not in snap["status"]:
                            bad("status_reports_failure", "status after failure: %r" % snap["status"][:80], i)
                        elif injected and carries and any(e.__cause__ is x for x in injected) and not any(str(x) in snap["status"] for x in injected):
                            # (a fault inside the terminal-event roll-back is wrapped twice; the status text shows one level only)
                            bad("status_reports_failure", "status does not describe this call's failure: %r" % snap["status"][-90:], i)
                    if snap["success"]:
                        bad("status_reports_failure", "success is True after a failed call", i)
                # prefix of the twin (only while the histories have not diverged)
                if not diverged and tsnap is not None:
                    if not rows_prefix(snap["t"], snap["y"], tsnap["t"], tsnap["y"]):
                        bad("prefix_of_twin", "rows after the fault (%d) are not a bitwise prefix of the fault-free twin's %d rows" % (snap["n"], tsnap["n"]), i)
                    if not events_prefix(snap["events"], tsnap["events"]):
                        bad("events_prefix_of_twin", "events after the fault are not a prefix of the twin's events", i)
                # exactly the completed steps
                ics = [c for c in w.icalls if c["op"] == i and c["depth"] == 0]
                ok1 = len([c for c in ics if c["nested"] == 1 and c["ok"]])
                ok2 = len([c for c in ics if c["nested"] == 2 and c["ok"]])
                any2 = any(c["nested"] == 2 for c in ics)
                added = snap["n"] - pre_n
                seam = flt["fault"]["seam"]
                if any2 or flt["phase"].startswith("rollback"):
                    allowed = {ok1 - 1 + ok2}
                elif seam == "event":
                    allowed = {ok1 - 1, ok1}
                else:
                    allowed = {ok1}
                if added not in allowed:
                    bad("exactly_completed_steps", "op %d recorded %d new rows, but %s fully completed steps preceded the fault (%s, phase %s)"
                        % (i, added, sorted(allowed), seam, flt["phase"]), i)
                oracles.check_rows(w, snap, pre_n - 1, P, P + ".prefix_step")
                diverged = True
                continue
            # ---------------- non-failing integrate
            if snap["exc"] is not None:
                # not caused by an injected fault here: tolerance exhaustion etc. is a legal outcome only if the twin does the same
                cap_ops = scn.get("knobs", {}).get("retry_cap_ops")
                small_cap = scn.get("knobs", {}).get("retry_cap") is not None and (cap_ops is None or i in cap_ops) \
                    and any(type(x).__name__ == "FailedToMeetTolerances" for x in cause_chain(snap["exc"]))
                if small_cap:
                    continue        # with the retry-cap knob a resumed step may legitimately exhaust its (2-3) retries
                spiked_state = any(fr["fault"]["kind"] == "spike" for fr in w.fired) and \
                    not (float(np.max(np.abs(np.asarray(w.snaps[i - 1]["y"][-1], dtype=np.float64)))) <= 1e3 * (1.0 + float(np.max(np.abs(np.asarray(w.snaps[0]["y"][0], dtype=np.float64))))))
                if spiked_state:
                    continue        # an accepted step computed from spiked slopes left a state of 1e5..1e6: the problem, not the library, fails from there
                if any(fr["fault"]["kind"] == "spike" and fr["fault"].get("amp") != "nan" for fr in w.fired):
                    continue        # a wrong but FINITE slope cannot be told from a right one: whatever was computed (and cached) from it is the rhs's doing;
                                    # non-finite slopes can be told, and a call made after they are gone has to work
                if tsnap is None or tsnap["exc"] is None or diverged:
                    bad("resume_completes", "op %d raised %s without an injected fault (%s)" % (i, snap["exc_type"], str(snap["exc"].__cause__)[:120]), i)
                continue
            if not diverged:
                if tsnap is not None and first_fault_op is None:
                    pass
                if tsnap is not None and not (bitwise_equal(snap["t"], tsnap["t"]) and bitwise_equal(snap["y"], tsnap["y"])) and not any(f <= i for f in fired_ops):
                    bad("deterministic_before_fault", "op %d differs from the twin although no fault has fired yet" % i, i)
                if tsnap is not None and i > (first_fault_op if first_fault_op is not None else 1 << 30):
                    # after a reset both worlds restart from scratch: must agree bit for bit
                    same = bitwise_equal(snap["t"], tsnap["t"]) and bitwise_equal(snap["y"], tsnap["y"]) and events_prefix(snap["events"], tsnap["events"]) and len(snap["events"]) == len(tsnap["events"])
                    if not same:
                        bad("reset_then_equal_to_twin", "after reset()+integrate the trajectory differs from the fault-free twin's (rows %d vs %d)" % (snap["n"], tsnap["n"]), i)
                continue
            # resumed call after a failure
            if "terminated upon" in snap["status"] and op.get("events") and snap["n"] == pre_n and len(snap["events"]) == len(w.snaps[i - 1]["events"] if i > 0 else []):
                # "continues correctly from its end": a call that says it was stopped by an event has met one - a call that returns on the
                # spot without a new row or a new event has only found again the crossing the prefix already ends on
                target_ = oracles.op_target(w, op)
                if np.isfinite(target_) and abs(target_ - float(snap["t"][-1])) > 64 * eps_of(snap["t"].dtype) * max(1.0, abs(target_)):
                    bad("resume_completes", "op %d (resumed after a failure) returned at t=%r as 'terminated by an event' without recording a step or an event; target %r"
                        % (i, float(snap["t"][-1]), target_), i)
            oracles.check_rows(w, snap, pre_n - 1, P, P + ".resume_step")
            if tsnap is not None and tsnap["exc"] is None and not tainted:
                self.compare_final(w, T, snap, tsnap, i, bad)

    def compare_final(self, w, T, snap, tsnap, i, bad):
        tw, yw = snap["t"], snap["y"]
        tt, yt = tsnap["t"], tsnap["y"]
        if "terminated upon" in snap["status"] or "terminated upon" in tsnap["status"]:
            return
        integ = w.system.integrator
        fam = gen.method_family(w.scn["system"]["method"])
        if bitwise_equal(tw, tt) and fam in ("explicit_fixed", "splitting"):
            # same recorded times: a method without memory must give the same states; the step that was interrupted is re-taken with
            # h = target - t formed at the entry of the new call, which may differ from the original h in the last bit (same recorded
            # time after rounding): rounding level, not bitwise, for the rows from the resumed step on
            if not bitwise_equal(yw, yt):
                err_ = float(np.max(np.abs(np.asarray(yw - yt, dtype=np.float64))))
                bnd_ = 64 * len(tw) * eps_of(yw.dtype) * max(float(np.max(np.abs(np.asarray(yw, dtype=np.float64)))), 1e-300)
                if not (err_ <= bnd_):
                    bad("resume_equals_twin", "same grid as the twin but states differ by %.3e (> %.3e) after resuming (fixed-step explicit method)" % (err_, bnd_), i)
            return
        eps = eps_of(yw.dtype)
        rtol = float(getattr(integ, "rtol", 0.0))
        atol = float(getattr(integ, "atol", 0.0))
        if fam in ("explicit_fixed", "splitting", "implicit_fixed"):
            return          # different grids of a fixed-step method differ at truncation level: nothing exact to say
        k = w.system.constants.get("k", 1.0)
        amp = w.problem.amplification(float(tw[0]), float(tw[-1]), k)
        ymax = float(np.max(np.abs(yw)))
        nsteps = max(len(tw), len(tt))
        bound = 200 * ((atol + rtol * ymax) * nsteps * amp + 64 * eps * ymax * nsteps)
        err = float(np.max(np.abs(np.asarray(yw[-1] - yt[-1], dtype=np.float64))))
        if abs(float(tw[-1] - tt[-1])) > 64 * eps * max(1.0, abs(float(tt[-1]))):
            return
        w.ratio("C12.resume_close_to_twin", err / bound)
        if err > bound:
            bad("resume_close_to_twin", "final state after resume differs from the twin by %.3e (> %.3e)" % (err, bound), i)


PROP = C12()
