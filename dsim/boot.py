"""Process boot: pin every ambient source of nondeterminism, import the repo's working tree."""
import os
import sys

_ENV = {
    "PYTHONHASHSEED": "0",
    "OMP_NUM_THREADS": "1",
    "MKL_NUM_THREADS": "1",
    "OPENBLAS_NUM_THREADS": "1",
    "NUMEXPR_NUM_THREADS": "1",
}


def repo_path():
    return os.environ.get("DSIM_REPO", "/repo")


def ensure_env(argv=None):
    """Re-exec the interpreter once if the pinned environment is not in force."""
    need = False
    for k, v in _ENV.items():
        if k == "PYTHONHASHSEED" and os.environ.get("DSIM_KEEP_HASHSEED") == "1" and k in os.environ:
            continue
        if os.environ.get(k) != v:
            need = True
    if need and os.environ.get("DSIM_REEXEC") != "1":
        env = dict(os.environ)
        for k, v in _ENV.items():
            if k == "PYTHONHASHSEED" and env.get("DSIM_KEEP_HASHSEED") == "1" and k in env:
                continue
            env[k] = v
        env["DSIM_REEXEC"] = "1"
        env["PYTHONDONTWRITEBYTECODE"] = "1"
        os.execvpe(sys.executable, [sys.executable] + (argv if argv is not None else sys.argv), env)


_booted = False


def boot():
    """Make `import desolver` resolve to the current working tree of the repo."""
    global _booted
    if _booted:
        return
    rp = repo_path()
    sys.dont_write_bytecode = True
    if rp in sys.path:
        sys.path.remove(rp)
    sys.path.insert(0, rp)
    import warnings
    warnings.filterwarnings("ignore")
    import io
    import contextlib
    with contextlib.redirect_stderr(io.StringIO()):
        import desolver  # noqa: F401
    got = os.path.realpath(os.path.dirname(os.path.dirname(desolver.__file__)))
    if got != os.path.realpath(rp):
        raise RuntimeError("desolver imported from %s, expected %s" % (got, rp))
    import numpy as np
    np.seterr(all="ignore")
    from . import seams
    seams.install()
    _booted = True
