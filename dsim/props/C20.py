from .base import Prop
from .. import oracles


class C20(Prop):
    pid = "C20"
    level = "fault_enumeration"
    rule = ("one case = one seeded history (1-4 ops from integrate(t)/set tol/reset) over every method family, with/without events (incl. terminal "
            "rollback), dense output, ordered callback lists (observer and dt-scheduler), and 0-2 faults (rhs raise / KeyboardInterrupt / spike, "
            "callback raise, event raise, forced Newton non-convergence, Jacobian raise); counters are compared with the peers' own completed-call "
            "counts after EVERY recorded step (in-loop monitor) and after every op; non-trivial = at least one recorded step; the same oracle is "
            "also asserted at every enumerated crash point of the C12 check")
    assumptions = ["njev may count Jacobian requests since construction or since the last reset (the statement does not say reset() zeroes it)",
                   "a dt assigned by a callback may only be altered by the final-step clamp to target - t"]

    def monitors(self, scn):
        return [oracles.Counters("C20")]


PROP = C20()
