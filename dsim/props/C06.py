from .base import Prop
from .. import oracles


class C06(Prop):
    pid = "C06"
    quick = {"seeds": 4000, "wall_cap": 90, "chunk": 16}
    thorough = {"seeds": 80000, "wall_cap": 1500, "chunk": 32}
    level = "exploration"
    rule = ("one case = one seeded history with dense output on: 1-3 integrate(t) calls (continued calls), optionally terminal/non-terminal events "
            "(stop + continue) and optionally one rhs/event fault followed by a resuming integrate(); every method family, both directions. After EVERY "
            "op: coverage through sol.t_eval, grid reproduction, containing-piece equality against a reference Hermite piece at 5 points per recorded "
            "step (incl. 1 ulp inside both ends), end slopes, scalar-vs-array agreement, and for closed-form problems the O(h^4) accuracy bound. "
            "Non-trivial = at least one recorded step")
    assumptions = ["reference Hermite piece is built from the recorded rows and the mathematical rhs at those rows",
                   "Richardson wrappers: pieces come from sub-steps, so only coverage/range and grid reproduction within K*tol are asserted",
                   "sol.grad is queried with scalars only (the array path of DenseOutput.grad prints to stdout)"]

    def monitors(self, scn):
        return [oracles.Dense("C06")]


PROP = C06()
