"""per (method, family) maximum of the C05 accuracy ratios over N seeds (usage: DSIM_REPO=<tree> python calib_c05.py VERIF_SEED N)"""
import os, sys, json
sys.path.insert(0, '/verif')
from concurrent.futures import ProcessPoolExecutor
import multiprocessing as mp

def work(args):
    seeds, repo = args
    os.environ["DSIM_REPO"] = repo
    from dsim import boot
    boot.boot()
    from dsim import props
    from dsim.runner import run_scenario_safe
    prop = props.get("C05")
    out = {}
    for s in seeds:
        for scn in prop.generate(s, "quick"):
            r = run_scenario_safe(prop, scn)
            key = (scn["system"]["method"], scn["problem"]["family"])
            for k, v in r["ratios"].items():
                kk = key + (k,)
                if v > out.get(kk, (-1,))[0]:
                    out[kk] = (v, s)
    return out

if __name__ == "__main__":
    vs, n = int(sys.argv[1]), int(sys.argv[2])
    repo = os.environ.get("DSIM_REPO", "/repo")
    seeds = [vs * 1000003 + i for i in range(n)]
    chunks = [(seeds[i::64], repo) for i in range(64)]
    tot = {}
    with ProcessPoolExecutor(16, mp_context=mp.get_context("fork")) as ex:
        for o in ex.map(work, chunks):
            for k, v in o.items():
                if v[0] > tot.get(k, (-1,))[0]:
                    tot[k] = v
    flt = sys.argv[3] if len(sys.argv) > 3 else ""
    for k in [k_ for k_ in sorted(tot, key=lambda k: -tot[k][0]) if flt in k_[0]][:40]:
        print(k, "%.3g" % tot[k][0], tot[k][1])
